#!/usr/bin/env python3
"""Regenerates /verif/MANIFEST.json from the table below (kept in one place so it stays valid)."""
import json, os, sys

VERIF = os.path.dirname(os.path.dirname(os.path.abspath(__file__)))
sys.path.insert(0, VERIF)
from tools.manifest_table import CHECKS, NOT_APPLICABLE  # noqa: E402

PY = "/venv/bin/python"
checks = []
for pid, (text, note, technique, ref) in sorted(CHECKS.items()):
    checks.append({
        "property_id": pid,
        "quick_cmd": f"cd /verif && {PY} -m mc.run {pid} --tier quick",
        "thorough_cmd": f"cd /verif && {PY} -m mc.run {pid} --tier thorough",
        "evidence_file": f"/verif/evidence/{pid}.json",
        "replay_cmd_template": f"cd /verif && {PY} -m mc.run --replay {{path}}",
        "engine": "mc",
        "level_claimed": {"category": "model_checking", "text": text, "design_ref": ref},
        "level_note": note,
        "technique": technique,
    })
m = {
    "version": 1,
    "setup_cmd": f"cd /verif && {PY} -m mc.selftest",
    "hooks": {
        "guard": "GEOMETER_VERIF",
        "enable": "no hooks are needed: every check observes geometer from outside through public objects and plain attributes; the guard name is reserved and unused",
        "baseline_off_cmd": "cd /repo && /venv/bin/python -m pytest -ra -q -p no:cacheprovider --timeout=900 --continue-on-collection-errors",
        "source_commits": [],
        "add_only": True,
    },
    "engines": [{
        "name": "mc",
        "path": "/verif/mc",
        "serves_properties": sorted(CHECKS),
        "kind_free_text": "hand-written explicit-state / small-scope explorer for Python: exhaustive enumeration of finite alphabets "
                          "(lattices, catalogues, operation sequences, index grammars) sharded over 16 forked workers, real geometer code "
                          "executed on every configuration, exact Fraction/integer reference models stepped in lock-step, BFS with canonical-state "
                          "dedup for operation sequences",
    }],
    "checks": checks,
    "not_applicable": [{"property_id": k, "reason": v} for k, v in sorted(NOT_APPLICABLE.items())],
    "notes": "All checks run the working tree of /repo (sys.path[0]=/repo, no byte-code). VERIF_SEED selects one additional complete slice "
             "and the shard order; the base scope and every detection are seed-independent. See DESIGN.md.",
}
with open(os.path.join(VERIF, "MANIFEST.json"), "w") as f:
    json.dump(m, f, indent=1)
print("MANIFEST.json:", len(checks), "checks,", len(m["not_applicable"]), "not applicable")
