#!/bin/bash
# usage: trymut.sh <file under /repo> <python-regex-old> <new> <PID...>   — applies an in-place edit to /repo, runs the
# pinned tests and the given quick checks, then restores the file with git checkout. For my own mutation experiments.
set -u
f=$1; old=$2; new=$3; shift 3
cd /repo || exit 2
python3 - "$f" "$old" "$new" <<'PY'
import sys
f,old,new=sys.argv[1:4]
s=open(f).read()
assert s.count(old)==1, f"pattern occurs {s.count(old)} times"
open(f,'w').write(s.replace(old,new))
PY
[ $? -eq 0 ] || { git checkout -- .; exit 2; }
echo "--- tests:"; /venv/bin/python -m pytest -q -p no:cacheprovider -x 2>&1 | tail -1
for pid in "$@"; do echo "--- $pid:"; (cd /verif && /venv/bin/python -m mc.run $pid --tier quick 2>&1 | grep -E "VIOLATION|first:|violations=|INTERNAL|KNOWN" | head -5); done
git checkout -- .
