#!/usr/bin/env python3
"""Prints the markdown table of seeded changes (from /verif/seeded/*/meta.json) for DESIGN.md section 7."""
import glob, json, os
rows = []
for f in sorted(glob.glob("/verif/seeded/*/meta.json")):
    m = json.load(open(f))
    n = m["notes"]
    what = " ".join(str(n.get("what", "")).split())
    what = what[:150] + ("..." if len(what) > 150 else "")
    det = ", ".join(m.get("detected_by", [])) or ("OBSOLETE (" + m["obsolete"] + ")" if m.get("obsolete") else "MISSED")
    ran = ", ".join(sorted(m.get("checks_run_quick", {})))
    rows.append((m["id"], str(m.get("property")), what, det, ran))
import sys, io
buf = io.StringIO()
_print = print
def print(*a, **k):
    _print(*a, **k, file=buf)
print("| seed | breaks | change (abridged) | detected by (quick tier) | checks run |")
print("|---|---|---|---|---|")
for r in rows:
    print("| " + " | ".join(r) + " |")
print(f"\n{len(rows)} seeded changes, {sum(1 for r in rows if r[3] != 'MISSED' and not r[3].startswith('OBSOLETE'))} detected, {sum(1 for r in rows if r[3].startswith('OBSOLETE'))} obsolete, {sum(1 for r in rows if r[3] == 'MISSED')} missed.")

out = buf.getvalue()
if "--update" in sys.argv:
    d = open("/verif/DESIGN.md").read()
    a, b = d.index("<!-- SEED-TABLE-BEGIN -->"), d.index("<!-- SEED-TABLE-END -->")
    d = d[: a + len("<!-- SEED-TABLE-BEGIN -->")] + "\n" + out + d[b:]
    open("/verif/DESIGN.md", "w").write(d)
    _print("DESIGN.md updated")
else:
    _print(out)
