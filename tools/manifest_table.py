"""pid -> (level text, level note, technique, design ref). Properties without a check yet are in NOT_APPLICABLE
with the reason 'check not built yet' until their check lands (kept current at every commit)."""

NOTE = ("bounded scope only (declared lattices/catalogues/depths); exact Fraction/integer oracle in mc/exact.py, mc/oracle.py and the "
        "comparators in mc/compare.py are trusted; numpy/LAPACK trusted; predicates judged only away from the 1e-8 tolerance band; every "
        "counterexample configuration recorded under replays/ is re-run in both tiers (family regressions)")
TECH = "exhaustive small-scope enumeration of the real implementation against an exact reference model (explicit-state explorer written for this task)"

CHECKS = {
    "C12": ("Explicit-state exploration over a shared pool (two single objects per kind - int dtype and float with a non-normalised "
            "representative, for points also a float already-normalised one and a float point at infinity - and a collection per kind; 17 kinds) with about 700 actions (every catalogue operation on every choice of pool "
            "operands): the state is a byte-level snapshot of every array reachable from every pool object, the constants I, J, infty, "
            "infty_plane, absolute_conic, the cached epsilon / delta arrays and the mutable default arguments. Closure: every action leads back "
            "to the initial state (so every finite sequence does); premise checked differentially: after each action and along the growing "
            "history every query sharing an operand answers as on a fresh pool; derived objects (copy, transformed) are used as operands (alias "
            "writes) and queried after earlier queries (stale caches); a second pass with all arrays read-only pinpoints writes.",
            NOTE, "explicit-state exploration with byte-level state snapshots (closure of the reachable state set) plus differential history checks on the real implementation", "DESIGN.md section 5, C12"),
    "C03": ("Every catalogue operation (about 210 entries: join/meet kinds, incidence, dist, angle, cross ratios, harmonic sets, constructions, "
            "predicates, transformations on every object kind, quadric contains / intersect / tangent / polar / dual / components, conic x conic, polytope "
            "contains / intersect / area / centroid / distances) x every argument position (every vertex of a polytope) x every scale factor of "
            "{-3,-2,-1,-1/2,1/2,2,3} (+ i, -i, 1+i for the algebraic operations; thorough adds 1/4, 5, 10, 1/10) x up to 24 exact base configurations: "
            "the rescaled call must give identical predicates, equal numbers (angles mod pi), projectively equal objects, equal multisets; == is "
            "checked on all pairs of lattice points / lines / planes (true exactly for exact multiples, reflexive, symmetric), 3D lines, conics, "
            "transformations and collections; polygon membership and area under all sign patterns of the vertex weights.",
            NOTE, "exhaustive metamorphic enumeration (operation x argument position x scale factor x configuration) on the real implementation", "DESIGN.md section 5, C03"),
    "C04": ("Every catalogue operation that accepts collections x collection shapes (1,), (2,), (3,), (2,2), (1,3) (thorough: also (4,), (2,3), (3,1), (2,1,2), (1,1) and windows of every second configuration) x every single/collection "
            "assignment of the arguments x every window of consecutive base configurations: each position of the collection result must equal the "
            "library's own single-object result (classes, duality flags, values; exceptions must correspond); integer indexing c[i], c[i,j], c[-i], "
            "c[i][j] and iteration of every collection class (incl. dual quadric collections) must yield the element class with equal coordinates, "
            "index types, is_dual, pdim and cached lines / planes.",
            NOTE, "exhaustive differential enumeration (operation x shape x single/collection mix x position) of collection calls against single-object calls of the real implementation", "DESIGN.md section 5, C04"),
    "C18": ("segment x segment and segment x line over all ordered endpoint pairs of the 3x3 lattice (+ half points): crossing, T-touch, endpoint touch, "
            "parallel, collinear (only 'no spurious point' there); segment x plane and 3D segment x segment (skew operands may raise the documented "
            "NotCoplanar); 2D polygon catalogue x lines and segments through lattice pairs of the bounding box; 3D polygons in 7 embeddings x lines / "
            "segments piercing the interior, an edge, a vertex, missing, stopping short, parallel and in-plane; axis-aligned and sheared cuboids x "
            "lines / segments through lattice pairs of the enclosing grid. The returned list must equal the exact rational set of isolated common "
            "points (each once, Point objects), single and collection operands.",
            NOTE, TECH, "DESIGN.md section 5, C18"),
    "C16": ("Every polygon of an 11-polygon catalogue (triangles of both orientations, rectangles, skew quadrilateral, dart, L, comb, polygons with "
            "vertices level with other vertices) x every cyclic rotation x both directions x every half-integer query point of the bounding box + "
            "margin (at vertices, on edges, on edge extensions, level with vertices, inside, outside) against an exact integer crossing-number "
            "oracle; Polygon / Triangle / Rectangle / PolygonCollection forms, single points (several representatives) and point collections, points at "
            "infinity; the same in 7 integer affine embeddings into 3-space with in-plane and off-plane queries; segments over all lattice endpoint "
            "pairs x all half-lattice points (2D and 3D), rays in all lattice directions, SegmentCollection.",
            NOTE, TECH, "DESIGN.md section 5, C16"),
    "C17": ("Polygon.area and centroid for the whole catalogue x all rotations/reversals x 2D and 7 embeddings x two vertex representations against "
            "exact shoelace / area-centroid values (and second reads, collections, isometric images); Simplex.volume / Triangle.area / circumcenter over "
            "all lattice triangles (2D radius 2, 3D radius 1) and tetrahedra; Segment length / midpoint over all lattice pairs; RegularPolygon for "
            "lattice centres (on and off the origin), n = 3..8, radii, axes in 3D; Cuboid.area and face areas for orthogonal and sheared edge "
            "triples; == over every permutation of the vertex cycle (true exactly for rotations/reversals), moved vertices, polyhedra with permuted "
            "and re-rotated faces; centre / radius / inradius / area of every regular polygon's image under k*M for an isometry M and k = 2, -1, 1/2; == in both orders against the 30 polyhedra with one face replaced by a copy of another.",
            NOTE, TECH, "DESIGN.md section 5, C17"),
    "C15": ("Conic.from_lines over all ordered pairs of distinct lines of {-2..2}^3 (all sign patterns) and Quadric.from_planes over all pairs of "
            "distinct planes of {-1,0,1}^4: degenerate, and components equal the generating pair as an unordered pair of projective classes, single "
            "and collection forms; is_degenerate against the exact determinant for all 728 lattice conics and 14 quadrics; irreducible quadrics "
            "(cones, cylinders, non-degenerate) raise NotReducible; conic x conic on pencils with known base points: every general 4-frame of the 3x3 "
            "lattice x all ordered pairs of 6 pencil parameters (degenerate members included as self and as argument), tangent pencils with a double "
            "base point, lattice circles (real points and the circular points): <= 4 points, each common, every exact common point present.",
            NOTE, TECH, "DESIGN.md section 5, C15"),
    "C14": ("All 728 non-zero symmetric 3x3 matrices over {-1,0,1} (split exactly into non-degenerate / rank 2 / rank 1) x all 26 lattice lines: "
            "intersect compared with the two roots of the exact integer binary form of the restriction (secant, tangent contact once or as a "
            "coincident pair, complex pair), single and collection forms incl. mixed collections; 14 integer 4x4 quadrics of every rank/signature and "
            "Sphere / Cone / Cylinder instances x all lines through lattice pairs, mixed 3D collections of reducible and irreducible members; tangent at "
            "points on the quadric and from outside points, polar values and reciprocity; dual and dual.dual for Quadric, Conic, Circle, Ellipse, "
            "Sphere, given-dual quadrics and collections; is_tangent against exact h^T adj(A) h = 0, also on quadrics derived after earlier queries; contains(x, tol) of point and dual quadrics over lattice points / hyperplanes in three dyadic representatives x a ladder of five tolerances (exact form values, margin factor 2).",
            NOTE, TECH, "DESIGN.md section 5, C14"),
    "C13": ("from_points over all 25 052 five-point subsets of the 5x5 lattice with no three collinear (exact conic from the integer null space; "
            "argument orders on a sub-family; from_crossratio with the exact cross ratio), from_tangent over all general 4-subsets of the 3x3 lattice x "
            "every lattice line missing them (containment and zero discriminant of the restriction), from_foci over lattice foci x boundary points "
            "against both confocal textbook conics and foci, Circle / Ellipse / Sphere over all lattice centres x radii (matrix, exact locus membership "
            "on half-integer points, center / radius / foci / area / volume), Cone and Cylinder over all 124 lattice axis directions (all octants) "
            "against the exact rational cone / cylinder matrix.",
            NOTE, TECH, "DESIGN.md section 5, C13"),
    "C10": ("Every lattice line of {-2..2}^3 x every lattice point (on and off the line, several representatives, int/float) for perpendicular / "
            "parallel / project / mirror against exact rational closed forms; every plane of {-1,0,1}^4 x every lattice point; 3D lines in all 13 "
            "lattice directions x all lattice points (perpendicular through points on and off the line, parallel, project, mirror involution); "
            "single, point-collection and line-collection forms; is_perpendicular / is_parallel / is_cocircular / is_collinear / is_coplanar / "
            "is_concurrent against exact integer determinants over all lattice tuples incl. more than n arguments and mixed collections; angle "
            "bisectors in 2D and 3D; base_point / direction / basis_matrix / general_point for every lattice line and plane, also on objects derived "
            "(transformed, copied) from objects whose properties were read before; perpendicular(p, plane=E) for every lattice 3D line x every lattice plane through it x points of the line (single, point collection, all-collection forms); the tol parameter of Subspace.contains / is_collinear / is_concurrent / is_coplanar over exact dyadic incidence values x five tolerances.",
            NOTE, TECH, "DESIGN.md section 5, C10"),
    "C11": ("All 840 ordered 4-tuples of parameters from {inf,-2,-1,0,1,2,3} on every line a+xb of the scope (1D, all independent lattice pairs in 2D, "
            "a 3D sub-scope) against the exact rational closed form (whose five symmetry identities are asserted exactly), collection and single "
            "paths, several representatives, invariance under projective generators; pencils of four lines and the from_point form for every "
            "lattice vertex (origin, coordinate axes, infinity included), pencils of 3D lines, coaxial planes with carrier lines exactly skew to the axis; "
            "all 1680 ordered 4-tuples of Gaussian-integer parameters mixing real and non-real ones (collection and per-argument-dtype single calls, plain and from a fifth point); harmonic_set over all parameter triples; NotCollinear / NotConcurrent over all non-degenerate lattice 4-tuples and mixed collections.",
            NOTE, TECH, "DESIGN.md section 5, C11"),
    "C09": ("dist over all lattice point pairs (2D radius 2, 3D radius 1; several homogeneous representatives, int/float), point x every lattice "
            "line/plane (incident and not; equal coordinate vectors), point x 3D lines in all lattice directions, planes parallel to lines, parallel "
            "planes, exactly one point at infinity, segments, polygons (2D and three embeddings; foot inside / boundary / outside; in and off plane), "
            "cuboid; angle over all lattice triples (2D oriented mod pi with antisymmetry, 3D unoriented incl. collinear), all pairs of lattice lines, "
            "line-direction, all pairs of lattice planes, concurrent 3D lines; invariance under rational isometries. Oracles are closed forms evaluated "
            "from exact rationals.",
            NOTE, TECH, "DESIGN.md section 5, C09"),
    "C06": ("Explicit-state BFS over words in {s, t, s^-1, t^-1} (depth 4 quick / 5-6 thorough) for pairs of exact generator matrices (shear, swap, "
            "projective, det 2, det -3, rational rotation, translation, complex unitary / phase-permutation, integer-dtype matrices) in 2D and 3D; "
            "state = canonical exact matrix of the word; at every transition the real letter is applied to the real objects of the parent state "
            "(19-20 object kinds incl. dual quadrics, polytopes, collections) and compared with the exact action of the word: stepwise vs composed "
            "application, inverse round trip, class preservation, cached _line/_plane (tolerances scaled by the exact condition number of deep words); t**k for k in -12..12 (the library evaluates powers as one k-operand einsum; 13 takes minutes), collections of transformations composed with single transformations and with each other, also with two axes; thorough: every generator pair at depth 5 (complex pairs 4), five pairs at depth 6.",
            NOTE, "explicit-state breadth-first search over transformation words on the real implementation with an exact rational group model", "DESIGN.md section 5, C06"),
    "C07": ("Every generator (non-isometries and integer-dtype matrices included) x every general-position configuration of each join/meet kind: "
            "t*op(args) and op(t*args) both equal the exact image of the exact span/intersection; incidence matrices (line/plane/3D-line x point, "
            "plane x line) before and after transformation equal the exact incidence; quadric contains / is_tangent (point and dual quadrics) on "
            "lattice points and hyperplanes (also under similarities with factor 1e-3 and 1e3); cross ratios of points, pencils and from_point forms; polytope vertex order.",
            NOTE, TECH, "DESIGN.md section 5, C07"),
    "C08": ("translation over all lattice offsets x point forms (normalised / scaled / negative representative), rotation(a) for 30 angles incl. "
            "additivity over all pairs, rotation(a, axis) for all 124 lattice axis directions (orthogonal, det 1, axis fixed, trace, turn angle, "
            "additivity, opposite axis) and for unit vectors rounded to 5-6 digits, scaling, reflection for every lattice mirror (five real and complex representatives each) of {-2..2}^3 / {-1,0,1}^4 against the exact Householder map "
            "(involution, fixed points, agreement with mirror), from_points over all general-position 4-frames of the 3x3 lattice (both directions) "
            "and 5-frames in 3D, from_points_and_conics over lattice-point triples of four conics; affine_transform(matrix, offset) over every 2x2 matrix with entries in {-1,0,2} (thorough {-1,0,1,2}; singular ones included), "
            "3x3 samples, every lattice offset, ten argument forms / dtype mixes (positional, keyword, lists, int / float / complex): matrix entries, dtype kind, arguments unchanged, images of lattice points and directions.",
            NOTE, TECH, "DESIGN.md section 5, C08"),
    "C19": ("Every pairing of 21 left operand kinds (all index-type patterns of rank<=3 incl. free axes, finite/infinite/non-normalised points, "
            "collections, lines, planes, quadrics, transformations) x 11 right operand kinds (plus, for points, partners of the opposite finiteness: finite, direction, misaligned mixed collection) x 8 operations x operator/ufunc form is executed and compared "
            "with numpy on the raw arrays (index types of t) or with exact affine point arithmetic; every index expression of length <= rank+1 "
            "(thorough: rank+2, rank 4) over a 13-item grammar (ints, slices, None, Ellipsis, lists, 2-D int arrays, 1-D/2-D boolean masks) x index-type "
            "patterns is executed; the provenance of every result axis is predicted by numpy's rule and validated against numpy itself with a tracer "
            "array; scalar-bool items (True, np.True_) at every position of every short basic expression; transpose (all permutations and cycles, rank<=4), expand_dims (all axes), copy.",
            NOTE, "exhaustive enumeration of an index-expression grammar and operand pairings on the real implementation against numpy-validated reference semantics", "DESIGN.md section 5, C19"),
    "C05": ("Explicit-state BFS over diagram-building programs (add_node / add_edge over a universe of 10-12 tensor objects incl. collections, "
            "a copy() twin and a dimension-3 tensor; every ordered pair, self edges and repeated edges; depth 3 quick / 4 thorough, programs containing a rejected edge to depth 3) with a reference "
            "model of the bookkeeping stepped in lock-step: error conformance at every transition, calculate() compared entry by entry with an "
            "independent label/union-find contraction, index types, constructor form; epsilon(n) n<=6/8 and delta(n,p) compared entry by entry "
            "with cycle-parity / Leibniz-determinant definitions; tensor_product and ** against the diagrams they denote.",
            NOTE, "explicit-state breadth-first search over operation sequences on the real TensorDiagram with a lock-step reference model; exhaustive entry enumeration for epsilon/delta", "DESIGN.md section 5, C05"),
    "C01": ("Every configuration of every supported join/meet arity and kind (2D pairs over {-2..2}^3, complex pairs, 3D pairs over {-1,0,1}^4, "
            "triples and 4-tuples over fixed point alphabets, collection layouts flat/grid/length-1/single-first/single-last) is executed on the "
            "real join/meet and the result compared with the exact span/intersection (integer/Fraction subspace algebra): class, tensor type, "
            "projective equality, argument order, un-normalised result, method/constructor forms, co-/contravariant line forms, round trips; the 3- and 4-vector "
            "configurations again with 21-bit dyadic coordinates (exact integer collineation), where the contractions round.",
            NOTE, TECH, "DESIGN.md section 5, C01"),
    "C02": ("The same enumerations without the general-position filter: the exact rank/coplanarity classification of every configuration "
            "(independent / dependent / skew / zero vector / aliased argument) predicts LinearDependenceError, NotCoplanar or no exception; "
            "for collections the dependent_values mask is compared bit for bit, incl. all 2^m masks for m<=4 by position; dependent and skew "
            "configurations with 21-bit dyadic coordinates (rounding noise instead of exact zeros) must raise as well.",
            NOTE, TECH, "DESIGN.md section 5, C02"),
    "C20": ("Every matrix of the declared integer families (n=2..5) is pushed through det/adjugate/inv on both sides of the size>=n*n*64 "
            "switch, in int/float/complex, and compared with an exact integer cofactor oracle; null_space/orth over all {-1,0,1} matrices "
            "by exact rank (also multiplied by 1000, 37 and 2^-10 with the rank left to the library); roots over all integer cubics with |c|<=3 and all factored cubics with repeated roots; is_multiple over all "
            "lattice pairs and axis forms; hat_matrix over the full lattice. Exhaustive within these bounds, not a sample.",
            NOTE, TECH, "DESIGN.md section 5, C20"),
}

ALL = [f"C{i:02d}" for i in range(1, 21)]
NOT_APPLICABLE = {p: "check not built yet in this commit (all 20 properties are in scope of the design; see DESIGN.md section 5)" for p in ALL if p not in CHECKS}
