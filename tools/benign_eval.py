#!/usr/bin/env python3
"""Evaluate one BENIGN change (a behaviour-preserving refactoring produced by an independent sub-agent):
    tools/benign_eval.py <dir with patch.diff, notes.json> <id> [PID ...]
The change is applied to a scratch worktree of /repo's HEAD under /tmp (never to /repo); the pinned suite must pass; then the
quick check of every property (or of the given ones) runs against the worktree (GEOMETER_REPO). Every check must stay
silent: an alarm here is a false alarm of the machinery (or shows that the change is not benign after all, to be decided
by hand). Keeps /verif/benign/<id>/ (patch.diff, meta.json) and removes the worktree."""
import json, os, shutil, subprocess, sys, time

src, bid, pids = sys.argv[1], sys.argv[2], sys.argv[3:]
if not pids:
    pids = [f"C{i:02d}" for i in range(1, 21)]
PY = "/venv/bin/python"
WT = "/tmp/wt/benign_" + bid
subprocess.run(f"git -C /repo worktree remove --force {WT} 2>/dev/null; git -C /repo worktree add -q --detach {WT} HEAD", shell=True, check=True)
ENV = dict(os.environ, GEOMETER_REPO=WT)


def sh(cmd, cwd=WT, timeout=3600):
    p = subprocess.run(cmd, shell=True, cwd=cwd, capture_output=True, text=True, timeout=timeout, env=ENV)
    return p.returncode, (p.stdout + p.stderr)


def clean():
    subprocess.run(f"git -C /repo worktree remove --force {WT}; git -C /repo worktree prune; rm -rf {WT}.evidence", shell=True)


rc, out = sh(f"git apply {os.path.join(src, 'patch.diff')}")
if rc != 0:
    print("patch does not apply:", out)
    clean()
    sys.exit(2)
checks = {}
try:
    rc1, out1 = sh(f"{PY} -m pytest -q -p no:cacheprovider -x")
    suite = out1.strip().splitlines()[-1]
    before = set(os.listdir("/verif/replays"))
    for pid in pids:
        t = time.time()
        rc3, out3 = sh(f"{PY} -m mc.run {pid} --tier quick", cwd="/verif")
        lines = [l for l in out3.splitlines() if l.startswith("VIOLATION") or l.startswith("first:") or l.strip().startswith("expected=") or "INTERNAL" in l or ": " in l and "violating cases" in l]
        checks[pid] = {"exit": rc3, "lines": [l[:600] for l in lines[:5]], "wall_s": round(time.time() - t, 1)}
    # replay artefacts written while judging a benign change are not counterexamples of the library: remove them again
    for f in set(os.listdir("/verif/replays")) - before:
        os.remove(os.path.join("/verif/replays", f))
finally:
    clean()
meta = {
    "id": bid,
    "notes": json.load(open(os.path.join(src, "notes.json"))),
    "suite_with_change": suite,
    "suite_passes_with_change": rc1 == 0,
    "checks_run_quick": checks,
    "alarms": [p for p, c in checks.items() if c["exit"] != 0],
    "repo_head": subprocess.run("git -C /repo rev-parse --short HEAD", shell=True, capture_output=True, text=True).stdout.strip(),
}
dst = os.path.join("/verif/benign", bid)
os.makedirs(dst, exist_ok=True)
shutil.copy(os.path.join(src, "patch.diff"), os.path.join(dst, "patch.diff"))
json.dump(meta, open(os.path.join(dst, "meta.json"), "w"), indent=1)
print(bid, "| suite", suite, "| alarms", meta["alarms"])
for p in meta["alarms"]:
    print("   ", p, checks[p]["exit"], *checks[p]["lines"][:3], sep="\n      ")
