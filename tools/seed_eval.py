#!/usr/bin/env python3
"""Evaluate one seeded change: tools/seed_eval.py <dir with patch.diff, demo_test.py, notes.json> <seed id> <PID> [more PIDs]
 1. demo passes on the clean tree   2. patch applies to /repo   3. pinned suite still passes   4. demo fails
 5. quick checks for the given properties report VIOLATION    6. /repo restored.
Keeps the change as /verif/seeded/<seed id>/ (patch.diff, demo_test.py, meta.json)."""
import json, os, shutil, subprocess, sys, time

src, sid, pids = sys.argv[1], sys.argv[2], sys.argv[3:]
PY = "/venv/bin/python"
# the change is applied to a scratch worktree of /repo's HEAD (outside /repo and /verif), never to /repo itself, and the
# checks are pointed at it with GEOMETER_REPO; so a background sweep that uses /repo is not disturbed
WT = "/tmp/wt/eval_" + sid
subprocess.run(f"git -C /repo worktree remove --force {WT} 2>/dev/null; git -C /repo worktree add -q --detach {WT} HEAD", shell=True, check=True)
ENV = dict(os.environ, GEOMETER_REPO=WT)


def sh(cmd, cwd=WT, timeout=1800):
    p = subprocess.run(cmd, shell=True, cwd=cwd, capture_output=True, text=True, timeout=timeout, env=ENV)
    return p.returncode, (p.stdout + p.stderr)


def clean():
    subprocess.run(f"git -C /repo worktree remove --force {WT}; git -C /repo worktree prune; rm -rf {WT}.evidence", shell=True)


demo = os.path.join(src, "demo_test.py")
rc0, out0 = sh(f"{PY} -m pytest -q -p no:cacheprovider {demo}")
demo_clean_pass = rc0 == 0
rc, out = sh(f"git apply {os.path.join(src, 'patch.diff')}")
if rc != 0:
    print("patch does not apply:", out)
    sys.exit(2)
res = {}
try:
    rc1, out1 = sh(f"{PY} -m pytest -q -p no:cacheprovider -x")
    suite = out1.strip().splitlines()[-1]
    rc2, out2 = sh(f"{PY} -m pytest -q -p no:cacheprovider {demo}")
    checks = {}
    for pid in pids:
        t = time.time()
        rc3, out3 = sh(f"{PY} -m mc.run {pid} --tier quick", cwd="/verif")
        viol = [l for l in out3.splitlines() if l.startswith("VIOLATION") or l.startswith("first:") or "INTERNAL" in l]
        checks[pid] = {"exit": rc3, "lines": viol[:3], "wall_s": round(time.time() - t, 1)}
finally:
    clean()
meta = {
    "id": sid,
    "property": json.load(open(os.path.join(src, "notes.json"))).get("property"),
    "notes": json.load(open(os.path.join(src, "notes.json"))),
    "confirmed": {
        "demo_passes_on_clean_tree": demo_clean_pass,
        "suite_with_change": suite,
        "suite_passes_with_change": rc1 == 0,
        "demo_fails_with_change": rc2 != 0,
    },
    "checks_run_quick": checks,
    "detected_by": [p for p, c in checks.items() if c["exit"] == 1 and any(l.startswith("VIOLATION") for l in c["lines"])],
    "ran": "scratch worktree of /repo HEAD under /tmp: git apply patch.diff; pytest (pinned suite); pytest demo_test.py; "
           "GEOMETER_REPO=<worktree> mc.run <pid> --tier quick; worktree removed",
    "repo_head": subprocess.run("git -C /repo rev-parse --short HEAD", shell=True, capture_output=True, text=True).stdout.strip(),
}
dst = os.path.join("/verif/seeded", sid)
os.makedirs(dst, exist_ok=True)
for f in ("patch.diff", "demo_test.py"):
    shutil.copy(os.path.join(src, f), os.path.join(dst, f))
json.dump(meta, open(os.path.join(dst, "meta.json"), "w"), indent=1)
print(sid, "| clean-demo-pass", demo_clean_pass, "| suite", suite, "| demo fails", rc2 != 0, "| detected by", meta["detected_by"])
for p, c in checks.items():
    print("   ", p, c["exit"], c["wall_s"], "s", (c["lines"] or [""])[0][:200])
