"""Evidence writer: /verif/evidence/<id>.json per /root/.vp/EVIDENCE.schema.json (level model_checking)."""
from __future__ import annotations

import json
import os

VERIF = os.path.dirname(os.path.dirname(os.path.abspath(__file__)))

ASSUMPTIONS = [
    "coverage is the declared finite scope (small integer / Gaussian / dyadic lattices, catalogues), not all reals",
    "numpy / BLAS / LAPACK and CPython are trusted",
    "the exact reference models in mc/exact.py and mc/oracle.py (Fractions, integers) are trusted; they never call geometer",
    "predicates are only judged when the exact discriminating quantity is 0 or clearly away from the library's 1e-8 tolerance",
]


def write_evidence(pid, tier, seed, wall, coverage, violations, extra_assumptions=()):
    # /verif/evidence describes /repo only: a run pointed at another checkout (GEOMETER_REPO, used when a seeded change is
    # evaluated in a scratch worktree) writes its evidence next to that checkout instead
    target = os.path.realpath(os.environ.get("GEOMETER_REPO", "/repo"))
    evdir = os.path.join(VERIF, "evidence") if target == os.path.realpath("/repo") else target.rstrip("/") + ".evidence"
    if os.environ.get("VERIF_FAMILY"):  # debugging aid (a subset of the families): not evidence for the property
        evdir = "/tmp/verif_partial_evidence"
    os.makedirs(evdir, exist_ok=True)
    cov = dict(coverage)
    cov.setdefault(
        "rule",
        "every configuration of each family's declared finite scope is enumerated (index mod shards, no sampling); "
        "a state is the canonical (hashable) configuration / model state on which the exact oracle was evaluated; "
        "non-trivial = distinct states that reached the oracle comparison (not filtered as outside the statement); "
        "transitions = executions of real geometer operations; traces = oracle-predicted (operation, outcome) pairs "
        "replayed against the implementation and compared",
    )
    if cov.get("states", 0) < 1:
        cov["states"] = 1
    if cov.get("transitions", 0) < 1:
        cov["transitions"] = 1
    body = {
        "property_id": pid,
        "tier": tier,
        "seed": int(seed),
        "level": "model_checking",
        "coverage": cov,
        "assumptions": ASSUMPTIONS + list(extra_assumptions),
        "wall_s": round(float(wall), 3),
        "violations": int(violations),
    }
    path = os.path.join(evdir, f"{pid}.json")
    tmp = path + ".tmp"
    with open(tmp, "w") as f:
        json.dump(body, f, indent=1, sort_keys=False)
    os.replace(tmp, path)
    return path
