"""R3 comparators of the harness (the library's == is itself a subject of C03, so it is never used to judge)."""
from __future__ import annotations

import math

import numpy as np


def arr(x):
    if hasattr(x, "array"):
        x = x.array
    return np.asarray(x)


def proj_eq(a, b, tol=1e-9):
    """Projective equality of two non-zero coordinate arrays of the same size (all 2x2 minors vanish, relatively)."""
    a = arr(a).astype(complex).ravel()
    b = arr(b).astype(complex).ravel()
    if a.shape != b.shape:
        return False
    if not (np.all(np.isfinite(a)) and np.all(np.isfinite(b))):
        return False
    na, nb = np.linalg.norm(a), np.linalg.norm(b)
    if na == 0 or nb == 0:
        return False
    m = np.outer(a, b)
    m = m - m.T
    return bool(np.max(np.abs(m)) <= tol * na * nb)


def proj_eq_exact(a, b):
    """Exact projective equality for results of integer pipelines (float arithmetic on small ints is exact)."""
    a = arr(a).ravel()
    b = arr(b).ravel()
    if a.shape != b.shape or not np.any(a) or not np.any(b):
        return False
    m = np.outer(a, b)
    return bool(np.all(m == m.T))


def proj_eq_batch(a, b, tol=1e-9, tensor_axes=1):
    """Vectorised proj_eq over leading axes; the last `tensor_axes` axes hold the coordinates."""
    a = arr(a).astype(complex)
    b = arr(b).astype(complex)
    a = a.reshape(a.shape[: a.ndim - tensor_axes] + (-1,))
    b = b.reshape(b.shape[: b.ndim - tensor_axes] + (-1,))
    a, b = np.broadcast_arrays(a, b)
    na = np.linalg.norm(a, axis=-1)
    nb = np.linalg.norm(b, axis=-1)
    m = a[..., :, None] * b[..., None, :]
    m = m - np.swapaxes(m, -1, -2)
    mx = np.max(np.abs(m), axis=(-1, -2))
    with np.errstate(all="ignore"):
        ok = (mx <= tol * na * nb) & (na > 0) & (nb > 0) & np.isfinite(mx)
    return ok


def num_eq(a, b, rtol=1e-9, atol=1e-9):
    try:
        a = complex(a)
        b = complex(b)
    except (TypeError, ValueError):
        return False
    if math.isinf(a.real) or math.isinf(b.real):
        return a == b or (math.isinf(a.real) and math.isinf(b.real) and a.imag == b.imag == 0 and a.real == b.real)
    if a != a or b != b:
        return False
    return abs(a - b) <= atol + rtol * max(abs(a), abs(b))


def arr_eq(a, b, rtol=1e-9, atol=1e-9):
    a, b = np.asarray(a), np.asarray(b)
    if a.shape != b.shape:
        return False
    if a.dtype == bool or b.dtype == bool:
        return bool(np.array_equal(a, b))
    with np.errstate(all="ignore"):
        both_inf = np.isinf(a) & np.isinf(b) & (np.sign(a.real) == np.sign(b.real))
        both_nan = np.isnan(a) & np.isnan(b)
        ok = np.abs(a - b) <= atol + rtol * np.maximum(np.abs(a), np.abs(b))
    return bool(np.all(ok | both_inf | both_nan))


def angle_eq_mod_pi(a, b, tol=1e-9):
    try:
        a = complex(a)
        b = complex(b)
    except (TypeError, ValueError):
        return False
    if abs(a.imag) > tol or abs(b.imag) > tol or a != a or b != b:
        return False
    d = (a.real - b.real) % math.pi
    return min(d, math.pi - d) <= tol


def match_multiset(got, want, eq):
    """True iff the two lists are equal as multisets under the equivalence `eq`."""
    want = list(want)
    if len(got) != len(want):
        return False
    for g in got:
        for k, w in enumerate(want):
            if eq(g, w):
                want.pop(k)
                break
        else:
            return False
    return True


def contains_all(got, want, eq):
    """Every element of `want` is matched by some element of `got`."""
    return all(any(eq(g, w) for g in got) for w in want)


def quad_form(A, x):
    A = arr(A).astype(complex)
    x = arr(x).astype(complex)
    return x @ A @ x


def rel_zero(value, scale, tol=1e-9):
    return abs(value) <= tol * max(scale, 1e-300)


def on_quadric(A, x, tol=1e-9):
    """x^T A x = 0 relative to |A| |x|^2 (harness evaluation, independent of the library's contains)."""
    A = arr(A).astype(complex)
    x = arr(x).astype(complex)
    if not np.all(np.isfinite(x)):
        return False
    v = x @ A @ x
    na, nx = np.linalg.norm(A), np.linalg.norm(x)
    if not (np.isfinite(na) and na > 0 and nx > 0):
        return False  # the zero matrix is not a quadric, the zero vector not a point
    return abs(v) <= tol * na * nx**2


def incident(h, x, tol=1e-9):
    h = arr(h).astype(complex).ravel()
    x = arr(x).astype(complex).ravel()
    if not (np.all(np.isfinite(x)) and np.all(np.isfinite(h))):
        return False
    nh, nx = np.linalg.norm(h), np.linalg.norm(x)
    if not (nh > 0 and nx > 0):
        return False
    return abs(h @ x) <= tol * nh * nx
