"""Exploration engine: families of exhaustively enumerated configurations, sharded over forked workers.

A *family* is a pair (enum, case):
  enum(tier, seed) -> iterable of JSON-serialisable configurations, in simplest-first order (R9)
  case(ctx, cfg)   -> runs the REAL library on that configuration and compares with the exact oracle,
                      reporting through ctx (ctx.ok / ctx.fail / ctx.tally / ctx.state ...)
Every configuration of the declared scope is visited (never sampled); workers take index i mod nshards.
The same `case` function replays a single configuration from a replay file in a fresh interpreter.
"""
from __future__ import annotations

import hashlib
import itertools
import json
import multiprocessing as mp
import os
import subprocess
import sys
import time
import traceback
from collections import Counter

VERIF = os.path.dirname(os.path.dirname(os.path.abspath(__file__)))
REPO = os.environ.get("GEOMETER_REPO", "/repo")
NSHARDS = int(os.environ.get("VERIF_SHARDS", "16"))
NWORKERS = int(os.environ.get("VERIF_WORKERS", "16"))
MAX_FAILS_PER_TASK = 40

FAMILIES: dict[str, list["Family"]] = {}


class Family:
    def __init__(self, pid, name, enum, case, tiers=("quick", "thorough"), budget=None):
        self.pid, self.name, self.enum, self.case, self.tiers, self.budget = pid, name, enum, case, tiers, budget


def family(pids, name, enum, tiers=("quick", "thorough")):
    """Register `case` as a family for one or several property ids."""
    if isinstance(pids, str):
        pids = [pids]

    def deco(case):
        for pid in pids:
            FAMILIES.setdefault(pid, []).append(Family(pid, name, enum, case, tiers))
        return case

    return deco


def jsonable(x):
    import numpy as np
    from fractions import Fraction

    if isinstance(x, (str, bool, type(None))):
        return x
    if isinstance(x, (int,)):
        return int(x)
    if isinstance(x, float):
        if x != x or x in (float("inf"), float("-inf")):
            return repr(x)
        return x
    if isinstance(x, complex):
        return {"re": jsonable(x.real), "im": jsonable(x.imag)}
    if isinstance(x, Fraction):
        return str(x)
    if isinstance(x, np.generic):
        return jsonable(x.item())
    if isinstance(x, np.ndarray):
        return jsonable(x.tolist())
    if isinstance(x, dict):
        return {str(k): jsonable(v) for k, v in x.items()}
    if isinstance(x, (list, tuple, set, frozenset)):
        return [jsonable(v) for v in x]
    if hasattr(x, "array") and hasattr(x, "tensor_shape"):
        return {"cls": type(x).__name__, "array": jsonable(x.array)}
    if isinstance(x, BaseException):
        return f"{type(x).__name__}: {x}"
    return repr(x)


class Ctx:
    """Per-task recorder. One Ctx per (family, shard)."""

    def __init__(self, pid, fam, tier, seed, shard=0, nshards=1, deadline=None):
        self.pid, self.fam, self.tier, self.seed = pid, fam, tier, seed
        self.shard, self.nshards, self.deadline = shard, nshards, deadline
        self.t = Counter()  # branch tallies (inputs classified by the oracle)
        self.exc = Counter()
        self.outcomes = set()
        self.evals = 0  # configurations judged
        self.transitions = 0  # executions of real library operations
        self.traces = 0  # oracle-predicted (operation, outcome) pairs replayed against the implementation
        self.states = set()  # hashes of canonical configurations / states
        self.nontrivial = set()
        self.fails = []
        self.samples = []
        self.capped = None
        self.idx = -1
        self.undecided = 0
        self.skipped = 0
        self.known = {}

    def expired(self):
        """Long-running case functions (BFS) poll this; a run that hits the time cap reports exhaustive: false (R8)."""
        if self.deadline is not None and time.time() > self.deadline:
            if self.capped is None:
                self.capped = self.idx
            return True
        return False

    # -- bookkeeping -------------------------------------------------------------------------
    def tally(self, key, n=1):
        self.t[key] += n

    def trans(self, n=1):
        self.transitions += n

    def trace(self, n=1):
        self.traces += n

    def state(self, key, nontrivial=True):
        h = hash(key)
        self.states.add(h)
        if nontrivial:
            self.nontrivial.add(h)

    def outcome(self, key):
        if len(self.outcomes) < 5000:
            self.outcomes.add(key if isinstance(key, (str, int, bool)) else repr(key))

    def sample(self, s):
        if len(self.samples) < 2:
            self.samples.append(jsonable(s))

    def fail(self, sig, op, inputs, expected=None, observed=None, note=""):
        """Record a violation. `sig` is the narrow call-site/input-class signature used by known_findings."""
        rec = {"family": self.fam, "sig": sig, "inputs": jsonable(inputs)}
        dump = os.environ.get("VERIF_DUMP_FAILS")
        if dump:
            with open(dump, "a") as f:
                f.write(json.dumps({"property": self.pid, **rec}, sort_keys=True) + "\n")
        kf = match_finding(load_findings(), self.pid, rec)
        if kf is not None:
            self.known[kf["id"]] = self.known.get(kf["id"], 0) + 1
            self.t["KNOWN:" + kf["id"]] += 1
            return
        if len(self.fails) < MAX_FAILS_PER_TASK:
            self.fails.append(
                {
                    "idx": self.idx,
                    "family": self.fam,
                    "sig": sig,
                    "op": op,
                    "inputs": jsonable(inputs),
                    "expected": jsonable(expected),
                    "observed": jsonable(observed),
                    "note": note,
                    "cfg": jsonable(self.cfg),
                }
            )
        self.t["FAIL:" + sig] += 1

    def call(self, fn, *a, **k):
        """Run a real operation, counting the transition; returns (result, exception)."""
        self.transitions += 1
        try:
            return fn(*a, **k), None
        except RecursionError as e:  # keep the traceback small
            return None, e
        except Exception as e:  # noqa: BLE001
            return None, e

    def result(self):
        return {
            "fam": self.fam,
            "shard": self.shard,
            "t": dict(self.t),
            "exc": dict(self.exc),
            "outcomes": list(self.outcomes)[:2000],
            "evals": self.evals,
            "transitions": self.transitions,
            "traces": self.traces,
            "states": self.states,
            "nontrivial": self.nontrivial,
            "fails": self.fails,
            "samples": self.samples,
            "capped": self.capped,
            "undecided": self.undecided,
            "skipped": self.skipped,
            "known": self.known,
        }


def _import_repo():
    if sys.path[0] != REPO:
        sys.path.insert(0, REPO)
    import geometer

    f = os.path.realpath(geometer.__file__)
    if not f.startswith(os.path.realpath(REPO) + os.sep):
        raise RuntimeError(f"geometer imported from {f}, expected under {REPO}")
    return geometer


def _reset_library_caches():
    """Long-lived workers must not carry library state from one configuration to the next: the class-level caches of
    the epsilon / delta tensors are emptied before every configuration, so that every verdict is a function of the
    configuration alone and replays identically in a fresh interpreter."""
    base = sys.modules.get("geometer.base")
    if base is not None:
        for cls in ("LeviCivitaTensor", "KroneckerDelta"):
            c = getattr(getattr(base, cls, None), "_cache", None)
            if isinstance(c, dict):
                c.clear()


def _run_task(task):
    pid, fam_index, tier, seed, shard, nshards, deadline = task
    import numpy as np

    np.seterr(all="ignore")
    import warnings

    warnings.filterwarnings("ignore")
    fam = FAMILIES[pid][fam_index]
    ctx = Ctx(pid, fam.name, tier, seed, shard, nshards, deadline)
    try:
        for idx, cfg in enumerate(fam.enum(tier, seed)):
            if idx % nshards != shard:
                continue
            if deadline is not None and time.time() > deadline:
                ctx.capped = idx
                break
            ctx.idx, ctx.cfg = idx, cfg
            ctx.evals += 1
            if ctx.evals <= 1 and shard == 0:
                ctx.sample({"family": fam.name, "cfg": cfg})
            try:
                _reset_library_caches()
                fam.case(ctx, cfg)
            except Exception as e:  # harness error: never a verdict about the code  # noqa: BLE001
                return {"fam": fam.name, "shard": shard, "internal_error": traceback.format_exc(), "cfg": jsonable(cfg)}
    except Exception:  # noqa: BLE001
        return {"fam": fam.name, "shard": shard, "internal_error": traceback.format_exc(), "cfg": None}
    return ctx.result()


_FINDINGS = None


def load_findings():
    """known_findings.json (read-only at run time). A finding may carry `inputs_file`: a committed list of the exact
    failing inputs; then only those inputs are accepted as that finding."""
    global _FINDINGS
    if _FINDINGS is None:
        p = os.path.join(VERIF, "known_findings.json")
        _FINDINGS = []
        if os.path.exists(p):
            with open(p) as f:
                _FINDINGS = json.load(f)["findings"]
            for kf in _FINDINGS:
                if kf.get("status") == "known" and "inputs_file" in kf:
                    with open(os.path.join(VERIF, kf["inputs_file"])) as g:
                        kf["_inputs"] = {json.dumps(x, sort_keys=True) for x in json.load(g)}
    return _FINDINGS


def match_finding(findings, pid, fail):
    for kf in findings:
        if kf.get("status") != "known" or kf.get("property") != pid:
            continue
        if "sig_regex" in kf:
            import re

            if not re.fullmatch(kf["sig_regex"], fail["sig"]):
                continue
        elif kf.get("sig") != fail["sig"]:
            continue
        if "family" in kf and kf["family"] != fail["family"]:
            continue
        if "inputs" in kf and kf["inputs"] != fail["inputs"]:
            continue
        if "_inputs" in kf and json.dumps(fail["inputs"], sort_keys=True) not in kf["_inputs"]:
            continue
        return kf
    return None


def repo_head():
    try:
        return subprocess.run(["git", "-C", REPO, "rev-parse", "HEAD"], capture_output=True, text=True).stdout.strip()
    except Exception:  # noqa: BLE001
        return "?"


def write_replay(pid, fail, tier, seed):
    os.makedirs(os.path.join(VERIF, "replays"), exist_ok=True)
    body = {
        "property": pid,
        "family": fail["family"],
        "cfg": fail["cfg"],
        "sig": fail["sig"],
        "op": fail["op"],
        "inputs": fail["inputs"],
        "expected": fail["expected"],
        "observed": fail["observed"],
        "note": fail["note"],
        "tier": tier,
        "seed": seed,
        "repo_head": repo_head(),
        "how_to_replay": f"cd /verif && /venv/bin/python -m mc.run --replay replays/<this file>  (or pytest replays/test_replay.py)",
    }
    h = hashlib.sha1(json.dumps([pid, fail["family"], fail["cfg"], fail["sig"]], sort_keys=True).encode()).hexdigest()[:12]
    path = os.path.join(VERIF, "replays", f"{pid}_{h}.json")
    with open(path, "w") as f:
        json.dump(body, f, indent=1)
    return path


def replay_file(path, quiet=False):
    """Re-run one recorded configuration through the family's case function. Returns list of failures."""
    with open(path) as f:
        body = json.load(f)
    pid = body["property"]
    load_checks(pid)
    _import_repo()
    import numpy as np
    import warnings

    np.seterr(all="ignore")
    warnings.filterwarnings("ignore")
    fam = next(f for f in FAMILIES[pid] if f.name == body["family"])
    ctx = Ctx(pid, fam.name, body.get("tier", "quick"), body.get("seed", 0))
    ctx.idx, ctx.cfg = 0, body["cfg"]
    _reset_library_caches()
    fam.case(ctx, _tuplify(body["cfg"]))
    return pid, ctx.fails


def _tuplify(x):
    # configurations are enumerated as tuples; JSON turns them into lists. Case functions accept both,
    # but hashing (ctx.state) needs tuples.
    if isinstance(x, list):
        return tuple(_tuplify(v) for v in x)
    if isinstance(x, dict):
        return {k: _tuplify(v) for k, v in x.items()}
    return x


def load_checks(pid):
    import importlib

    importlib.import_module(f"checks.{pid.lower()}")
    _register_regressions(pid)


def _register_regressions(pid):
    """Family `regressions`: every configuration recorded under replays/ for this property (violations found earlier, in
    any tier or against a seeded change) is re-run in every tier, so a defect that was found once by the deeper tier is
    from then on also decided by the quick one."""
    if any(f.name == "regressions" for f in FAMILIES.get(pid, [])):
        return
    by_name = {f.name: f for f in FAMILIES.get(pid, [])}

    def enum(tier, seed):
        import glob

        seen = set()
        for path in sorted(glob.glob(os.path.join(VERIF, "replays", f"{pid}_*.json"))):
            with open(path) as f:
                body = json.load(f)
            key = json.dumps([body.get("family"), body.get("cfg")], sort_keys=True)
            if body.get("property") != pid or body.get("family") not in by_name or key in seen:
                continue
            seen.add(key)
            yield (body["family"], _tuplify(body["cfg"]))

    def case(ctx, cfg):
        name, inner = cfg
        outer_fam, outer_cfg = ctx.fam, ctx.cfg
        ctx.fam, ctx.cfg = name, inner  # a failure is recorded (and replayed) as a configuration of the original family
        try:
            by_name[name].case(ctx, inner)
        finally:
            ctx.fam, ctx.cfg = outer_fam, outer_cfg

    FAMILIES.setdefault(pid, []).append(Family(pid, "regressions", enum, case, ("quick", "thorough")))


def run_check(pid, tier, seed, time_cap=None):
    t0 = time.time()
    load_checks(pid)
    _import_repo()
    fams = [(i, f) for i, f in enumerate(FAMILIES.get(pid, [])) if tier in f.tiers]
    only = os.environ.get("VERIF_FAMILY")  # debugging aid only: restrict to some families
    if only:
        fams = [(i, f) for i, f in fams if f.name in only.split(",")]
    if not fams:
        print(f"no families for {pid} tier {tier}")
        return 2
    deadline = t0 + time_cap if time_cap else None
    tasks = [(pid, i, tier, seed, s, NSHARDS, deadline) for i, f in fams for s in range(NSHARDS)]
    # seed permutes the order in which shards are handed to workers (never which cases are explored)
    if seed:
        import random

        random.Random(seed).shuffle(tasks)
    ctx_mp = mp.get_context("fork")
    results = []
    if NWORKERS <= 1:
        results = [_run_task(t) for t in tasks]
    else:
        with ctx_mp.Pool(NWORKERS) as pool:
            for r in pool.imap_unordered(_run_task, tasks, chunksize=1):
                results.append(r)
    internal = [r for r in results if "internal_error" in r]
    if internal:
        for r in internal[:3]:
            print(f"INTERNAL-ERROR family={r['fam']} shard={r['shard']} cfg={r['cfg']}\n{r['internal_error']}", file=sys.stderr)
        print(f"{pid}: internal harness error (not a verdict about the code)", file=sys.stderr)
        return 2

    order = {f.name: k for k, (i, f) in enumerate(fams)}
    per_family = {}
    states, nontrivial = set(), set()
    tallies, excs = Counter(), Counter()
    fails, samples, outcomes = [], [], set()
    evals = transitions = traces = undecided = skipped = 0
    capped = {}
    for r in results:
        pf = per_family.setdefault(r["fam"], {"evals": 0, "transitions": 0, "fails": 0})
        pf["evals"] += r["evals"]
        pf["transitions"] += r["transitions"]
        pf["fails"] += len(r["fails"])
        states |= r["states"]
        nontrivial |= r["nontrivial"]
        for k, v in r["t"].items():
            tallies[r["fam"] + ":" + k] += v
        for k, v in r["exc"].items():
            excs[k] += v
        outcomes |= set(r["outcomes"])
        fails += r["fails"]
        samples += r["samples"]
        evals += r["evals"]
        transitions += r["transitions"]
        traces += r["traces"]
        undecided += r["undecided"]
        skipped += r["skipped"]
        if r["capped"] is not None:
            capped[r["fam"]] = min(capped.get(r["fam"], 1 << 60), r["capped"])
    fails.sort(key=lambda f: (order.get(f["family"], len(order)), f["idx"], f["sig"]))

    findings = load_findings()
    known_hit, new = {}, list(fails)
    by_id = {kf["id"]: kf for kf in findings if kf.get("status") == "known"}
    for r in results:
        for kid, n in r.get("known", {}).items():
            known_hit.setdefault(kid, [by_id[kid], 0])[1] += n
    for kid, (kf, n) in sorted(known_hit.items()):
        print(f"KNOWN-FINDING: property={pid} {kf['what']} [{kid}; hit {n}x]")

    rc = 0
    replay_path = None
    if new:
        first = new[0]
        replay_path = write_replay(pid, first, tier, seed)
        # R6: a violation is only reported if it reproduces in a fresh interpreter
        env = dict(os.environ)
        p = subprocess.run([sys.executable, "-m", "mc.run", "--replay", replay_path, "--quiet"], cwd=VERIF, env=env, capture_output=True, text=True)
        if p.returncode != 1:
            print(f"INTERNAL-ERROR: violation did not reproduce in a fresh process (rc={p.returncode})\n{p.stdout}\n{p.stderr}", file=sys.stderr)
            print(json.dumps(first, indent=1)[:3000], file=sys.stderr)
            return 2
        sigs = Counter(f["sig"] for f in new)
        print(f"{pid}: {len(new)} violating cases recorded; signatures: {dict(sigs)}")
        print(f"first: family={first['family']} op={first['op']} inputs={json.dumps(first['inputs'])[:400]}")
        print(f"       expected={json.dumps(first['expected'])[:300]} observed={json.dumps(first['observed'])[:300]} {first['note']}")
        print(f"VIOLATION property={pid} replay={replay_path}")
        rc = 1

    wall = time.time() - t0
    exhaustive = not capped
    from mc.evidence import write_evidence

    write_evidence(
        pid,
        tier,
        seed,
        wall,
        coverage={
            "states": max(len(states), 1) if evals else 0,
            "transitions": transitions,
            "traces_validated_against_impl": traces,
            "evaluations": evals,
            "distinct_nontrivial": len(nontrivial),
            "exhaustive": exhaustive,
            "capped_families": capped,
            "time_cap_s": time_cap,
            "families": per_family,
            "branch_tallies": dict(sorted(tallies.items())),
            "exceptions_by_type": dict(excs),
            "distinct_outcomes": len(outcomes),
            "undecided_near_tolerance": undecided,
            "filtered_outside_statement": skipped,
            "known_findings_hit": {k: v[1] for k, v in known_hit.items()},
            "samples": samples[:6] or [{"note": "no sample"}],
            "shards": NSHARDS,
            "repo_head": repo_head(),
        },
        violations=len(new),
    )
    print(
        f"{pid} tier={tier} seed={seed}: families={len(fams)} evals={evals} states={len(states)} transitions={transitions} "
        f"traces={traces} outcomes={len(outcomes)} exhaustive={exhaustive} violations={len(new)} known={sum(v[1] for v in known_hit.values())} wall={wall:.1f}s"
    )
    return rc


# ---- small enumeration helpers --------------------------------------------------------------------

def lattice(n, k, nonzero=True):
    """All integer vectors of {-k..k}^n ordered by max-norm, then 1-norm, then lexicographically (R9)."""
    vs = [v for v in itertools.product(range(-k, k + 1), repeat=n) if not nonzero or any(v)]
    vs.sort(key=lambda v: (max(map(abs, v)), sum(map(abs, v)), tuple(-x for x in v)))
    return vs


def seed_symmetry(seed, n):
    """Deterministic extra slice chosen by the seed: a signed permutation and integer offset (R6)."""
    import random

    r = random.Random(1000003 * (seed + 1))
    perm = list(range(n))
    r.shuffle(perm)
    signs = [r.choice((-1, 1)) for _ in range(n)]
    off = [r.randint(-2, 2) for _ in range(n)]
    return perm, signs, off
