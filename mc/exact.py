"""Exact reference arithmetic: Python ints / Fractions and Gaussian rationals Q(i). Never calls geometer.

All matrix routines are generic over a field whose elements support + - * / == and construction from int.
"""
from __future__ import annotations

import itertools
from fractions import Fraction as F


class QI:
    """Gaussian rational a + b i with Fraction parts."""

    __slots__ = ("re", "im")

    def __init__(self, re=0, im=0):
        if isinstance(re, QI):
            re, im = re.re, re.im
        elif isinstance(re, complex):
            re, im = F(re.real), F(re.imag)
        self.re, self.im = F(re), F(im)

    @staticmethod
    def c(x):
        return x if isinstance(x, QI) else QI(x)

    def __add__(self, o):
        o = QI.c(o)
        return QI(self.re + o.re, self.im + o.im)

    __radd__ = __add__

    def __neg__(self):
        return QI(-self.re, -self.im)

    def __sub__(self, o):
        return self + (-QI.c(o))

    def __rsub__(self, o):
        return QI.c(o) - self

    def __mul__(self, o):
        o = QI.c(o)
        return QI(self.re * o.re - self.im * o.im, self.re * o.im + self.im * o.re)

    __rmul__ = __mul__

    def conj(self):
        return QI(self.re, -self.im)

    def norm2(self):
        return self.re * self.re + self.im * self.im

    def __truediv__(self, o):
        o = QI.c(o)
        n = o.norm2()
        return self * QI(o.re / n, -o.im / n)

    def __rtruediv__(self, o):
        return QI.c(o) / self

    def __eq__(self, o):
        o = QI.c(o)
        return self.re == o.re and self.im == o.im

    def __hash__(self):
        return hash((self.re, self.im))

    def __bool__(self):
        return self.re != 0 or self.im != 0

    def __complex__(self):
        return complex(float(self.re), float(self.im))

    def __repr__(self):
        return f"({self.re}+{self.im}i)"


def fld(x):
    """Lift an int / float(dyadic) / complex / [re, im] pair into an exact field element."""
    if isinstance(x, (F, QI)):
        return x
    if isinstance(x, bool):
        return F(int(x))
    if isinstance(x, int):
        return F(x)
    if isinstance(x, float):
        return F(x)
    if isinstance(x, complex):
        return QI(F(x.real), F(x.imag)) if x.imag != 0 else F(x.real)
    if isinstance(x, str):
        return F(x)
    if isinstance(x, (list, tuple)) and len(x) == 2:  # [re, im]
        return QI(fld(x[0]), fld(x[1])) if fld(x[1]) != 0 else fld(x[0])
    raise TypeError(f"cannot lift {x!r}")


def vec(v):
    return [fld(x) for x in v]


def mat(m):
    return [[fld(x) for x in r] for r in m]


def is_zero(x):
    return not bool(x)


def dot(u, v):
    s = F(0)
    for a, b in zip(u, v):
        s = s + a * b
    return s


def matvec(m, v):
    return [dot(r, v) for r in m]


def matmul(a, b):
    bt = list(zip(*b))
    return [[dot(r, c) for c in bt] for r in a]


def transpose(m):
    return [list(r) for r in zip(*m)]


def identity(n):
    return [[F(int(i == j)) for j in range(n)] for i in range(n)]


def rref(m):
    """Reduced row echelon form; returns (R, pivot columns)."""
    m = [list(r) for r in m]
    rows = len(m)
    cols = len(m[0]) if rows else 0
    piv = []
    r = 0
    for c in range(cols):
        p = None
        for i in range(r, rows):
            if not is_zero(m[i][c]):
                p = i
                break
        if p is None:
            continue
        m[r], m[p] = m[p], m[r]
        pv = m[r][c]
        m[r] = [x / pv for x in m[r]]
        for i in range(rows):
            if i != r and not is_zero(m[i][c]):
                f = m[i][c]
                m[i] = [a - f * b for a, b in zip(m[i], m[r])]
        piv.append(c)
        r += 1
        if r == rows:
            break
    return m, piv


def rank(m):
    if not m:
        return 0
    return len(rref(m)[1])


def null_space(m, ncols=None):
    """Basis (list of vectors) of {x : m x = 0}."""
    if not m:
        return identity(ncols)
    R, piv = rref(m)
    n = len(m[0])
    free = [c for c in range(n) if c not in piv]
    basis = []
    for fc in free:
        v = [F(0)] * n
        v[fc] = F(1)
        for r, pc in enumerate(piv):
            v[pc] = -R[r][fc]
        basis.append(v)
    return basis


def det(m):
    n = len(m)
    if n == 0:
        return F(1)
    if n == 1:
        return m[0][0]
    if n == 2:
        return m[0][0] * m[1][1] - m[0][1] * m[1][0]
    # Laplace along first row (n <= 6 in this project)
    s = F(0)
    for j in range(n):
        if is_zero(m[0][j]):
            continue
        minor = [r[:j] + r[j + 1 :] for r in m[1:]]
        t = m[0][j] * det(minor)
        s = s + t if j % 2 == 0 else s - t
    return s


def adjugate(m):
    n = len(m)
    adj = [[None] * n for _ in range(n)]
    for i in range(n):
        for j in range(n):
            minor = [r[:j] + r[j + 1 :] for k, r in enumerate(m) if k != i]
            c = det(minor)
            adj[j][i] = c if (i + j) % 2 == 0 else -c
    return adj


def inv(m):
    d = det(m)
    if is_zero(d):
        raise ZeroDivisionError("singular")
    return [[x / d for x in r] for r in adjugate(m)]


def solve(m, b):
    return matvec(inv(m), b)


def cross(*vs):
    """Generalised cross product of n-1 vectors in n-space: c_i = cofactor so that det[v1..v_{n-1}, x] = c.x"""
    n = len(vs[0])
    assert len(vs) == n - 1
    out = []
    for i in range(n):
        minor = [[v[j] for j in range(n) if j != i] for v in vs]
        c = det(minor)
        out.append(c if (n - 1 + i) % 2 == 0 else -c)
    return out


def proportional(u, v):
    """Exact projective equality of two non-zero vectors (flattened)."""
    u, v = list(u), list(v)
    if len(u) != len(v):
        return False
    if all(is_zero(x) for x in u) or all(is_zero(x) for x in v):
        return False
    for i in range(len(u)):
        for j in range(i + 1, len(u)):
            if not is_zero(u[i] * v[j] - u[j] * v[i]):
                return False
    return True


def canon(v):
    """Canonical projective representative: divide by the first non-zero entry."""
    for x in v:
        if not is_zero(x):
            return tuple(y / x for y in v)
    return tuple(v)


def flatten(m):
    return [x for r in m for x in r]


def pluecker_from_points(p, q):
    """Contravariant 4x4 matrix L^{ij} = p^i q^j - p^j q^i of the line through two points of 3-space."""
    return [[p[i] * q[j] - p[j] * q[i] for j in range(4)] for i in range(4)]


def pluecker_from_planes(e, f):
    """Covariant 4x4 matrix of the line where two planes meet."""
    return [[e[i] * f[j] - e[j] * f[i] for j in range(4)] for i in range(4)]


def perm_sign(p):
    p = list(p)
    if len(set(p)) != len(p):
        return 0
    s = 1
    for i in range(len(p)):
        for j in range(i + 1, len(p)):
            if p[i] > p[j]:
                s = -s
    return s


def dual_pluecker(L):
    """(1/2) eps_{ijkl} L^{kl}: converts between co- and contravariant 4x4 line matrices (up to scale)."""
    out = [[F(0)] * 4 for _ in range(4)]
    for i, j, k, l in itertools.permutations(range(4)):
        out[i][j] = out[i][j] + perm_sign((i, j, k, l)) * L[k][l]
    return [[x / 2 for x in r] for r in out]


def span_join(vectors):
    """Row-space basis (rref rows) of the given vectors."""
    R, piv = rref(vectors)
    return [R[i] for i in range(len(piv))]


def tofloat(x):
    if isinstance(x, QI):
        return complex(x)
    return float(x)


def tofloats(v):
    return [tofloat(x) for x in v]


# ---- fraction-free integer twins (same results up to row scaling; used when every coordinate is an int) ----------

from math import gcd as _gcd


def _primitive(row):
    g = 0
    for x in row:
        g = _gcd(g, x)
    if g > 1:
        row = [x // g for x in row]
    return row


def irref(m):
    """Integer reduced row echelon form up to row scaling: rows primitive, pivots positive. Returns (rows, pivots)."""
    m = [list(r) for r in m]
    rows = len(m)
    cols = len(m[0]) if rows else 0
    piv = []
    r = 0
    for c in range(cols):
        p = None
        for i in range(r, rows):
            if m[i][c]:
                p = i
                break
        if p is None:
            continue
        m[r], m[p] = m[p], m[r]
        pr = m[r]
        pv = pr[c]
        for i in range(rows):
            if i != r and m[i][c]:
                f = m[i][c]
                m[i] = _primitive([pv * a - f * b for a, b in zip(m[i], pr)])
        piv.append(c)
        r += 1
        if r == rows:
            break
    out = []
    for i, c in enumerate(piv):
        row = _primitive(m[i])
        if row[c] < 0:
            row = [-x for x in row]
        out.append(row)
    return out, piv


def irank(m):
    return len(irref(m)[1]) if m else 0


def inull(m, ncols=None):
    """Integer basis of the kernel of an integer matrix."""
    if not m:
        return [[int(i == j) for j in range(ncols)] for i in range(ncols)]
    R, piv = irref(m)
    n = len(m[0])
    free = [c for c in range(n) if c not in piv]
    basis = []
    for fc in free:
        L = 1
        for r, pc in enumerate(piv):
            if R[r][fc]:
                a = R[r][pc]
                L = L * a // _gcd(L, a)
        v = [0] * n
        v[fc] = L
        for r, pc in enumerate(piv):
            if R[r][fc]:
                v[pc] = -R[r][fc] * (L // R[r][pc])
        basis.append(_primitive(v))
    return basis


def all_int(vs):
    return all(type(x) is int for v in vs for x in v)


def idet4(m):
    """Integer determinant of a 4x4 (or any small) integer matrix by cofactor expansion."""
    n = len(m)
    if n == 1:
        return m[0][0]
    if n == 2:
        return m[0][0] * m[1][1] - m[0][1] * m[1][0]
    s = 0
    for j in range(n):
        if m[0][j]:
            t = m[0][j] * idet4([r[:j] + r[j + 1 :] for r in m[1:]])
            s = s + t if j % 2 == 0 else s - t
    return s
