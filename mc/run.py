"""CLI:  python -m mc.run C07 [--tier quick|thorough] [--seed N]   |   python -m mc.run --replay <file>"""
from __future__ import annotations

import argparse
import os
import sys

_ENV = {
    "PYTHONHASHSEED": "0",
    "OMP_NUM_THREADS": "1",
    "OPENBLAS_NUM_THREADS": "1",
    "MKL_NUM_THREADS": "1",
    "PYTHONDONTWRITEBYTECODE": "1",
}


def _reexec_if_needed():
    if any(os.environ.get(k) != v for k, v in _ENV.items()):
        os.environ.update(_ENV)
        os.execv(sys.executable, [sys.executable, "-m", "mc.run", *sys.argv[1:]])


def main():
    _reexec_if_needed()
    sys.setrecursionlimit(3000)
    ap = argparse.ArgumentParser()
    ap.add_argument("pid", nargs="?")
    ap.add_argument("--tier", default=os.environ.get("VERIF_TIER") or "quick")
    ap.add_argument("--seed", type=int, default=int(os.environ.get("VERIF_SEED") or 0))
    ap.add_argument("--replay")
    ap.add_argument("--quiet", action="store_true")
    ap.add_argument("--time-cap", type=float, default=None)
    a = ap.parse_args()
    sys.path.insert(0, os.path.dirname(os.path.dirname(os.path.abspath(__file__))))
    from mc import core

    if a.replay:
        pid, fails = core.replay_file(a.replay)
        if fails:
            f = fails[0]
            if not a.quiet:
                import json

                print(json.dumps({k: f[k] for k in ("family", "sig", "op", "inputs", "expected", "observed", "note")}, indent=1)[:4000])
            print(f"VIOLATION property={pid} replay={a.replay}")
            return 1
        print(f"replay {a.replay}: property {pid} holds on this configuration")
        return 0
    if a.tier not in ("quick", "thorough"):
        a.tier = "quick"
    cap = a.time_cap
    if cap is None:
        cap = float(os.environ.get("VERIF_TIME_CAP") or (240 if a.tier == "quick" else 3300))
    return core.run_check(a.pid.upper(), a.tier, a.seed, cap)


if __name__ == "__main__":
    sys.exit(main())
