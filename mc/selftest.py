"""setup_cmd: nothing to build; verifies the interpreter, numpy and that geometer imports from /repo's working tree."""
import os, sys

os.environ.setdefault("PYTHONDONTWRITEBYTECODE", "1")
sys.dont_write_bytecode = True
sys.path.insert(0, os.path.dirname(os.path.dirname(os.path.abspath(__file__))))
from mc import core, exact  # noqa: E402

g = core._import_repo()
import numpy as np  # noqa: E402

assert exact.det(exact.mat([[1, 2], [3, 4]])) == -2
assert exact.rank(exact.mat([[1, 2], [2, 4]])) == 1
print("selftest ok: python", sys.version.split()[0], "numpy", np.__version__, "geometer from", os.path.dirname(g.__file__))
