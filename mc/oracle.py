"""Geometric reference models in exact arithmetic (Fractions / Gaussian rationals). Never calls geometer."""
from __future__ import annotations

from fractions import Fraction as F

from mc import exact as X


class Sub:
    """A projective subspace of P^{n-1}, stored as a reduced basis of points (rows)."""

    def __init__(self, pts, n=None):
        pts = [list(p) for p in pts]
        self.n = n if n is not None else len(pts[0])
        self.int = X.all_int(pts)
        if self.int:  # fraction-free twin (same subspace; rows primitive integer vectors)
            self.B = X.irref(pts)[0] if pts else []
        else:
            self.B = X.span_join([X.vec(p) for p in pts]) if pts else []

    @classmethod
    def from_planes(cls, planes, n=None):
        planes = [list(h) for h in planes]
        n = n if n is not None else len(planes[0])
        if X.all_int(planes):
            return cls(X.inull(planes, n), n)
        planes = [X.vec(h) for h in planes]
        return cls(X.null_space(planes, n) if planes else X.identity(n), n)

    @property
    def dim(self):  # vector-space dimension
        return len(self.B)

    def planes(self):
        if self.int:
            return X.inull(self.B, self.n)
        return X.null_space(self.B, self.n) if self.B else X.identity(self.n)

    def contains_point(self, p):
        return join(self, Sub([p], self.n)).dim == self.dim

    def contains(self, other):
        return join(self, other).dim == self.dim

    def key(self):
        return tuple(tuple(r) for r in self.B)

    def __eq__(self, other):
        return self.n == other.n and self.key() == other.key()

    def __hash__(self):
        return hash(self.key())


def join(*subs):
    rows = [r for s in subs for r in s.B]
    return Sub(rows, subs[0].n)


def meet(*subs):
    planes = [h for s in subs for h in s.planes()]
    return Sub.from_planes(planes, subs[0].n)


def wedge(e, f):
    n = len(e)
    return [[e[i] * f[j] - e[j] * f[i] for j in range(n)] for i in range(n)]


def expected_array(sub, kind):
    """Coordinates geometer uses for a subspace: 'point' -> vector; 'hyper' -> hyperplane vector;
    'line3' -> contravariant 4x4 matrix e^f of two planes through the line."""
    if kind == "point":
        assert sub.dim == 1
        return sub.B[0]
    if kind == "hyper":
        h = sub.planes()
        assert len(h) == 1
        return h[0]
    if kind == "line3":
        h = sub.planes()
        assert len(h) == 2 and sub.n == 4
        return wedge(h[0], h[1])
    raise KeyError(kind)
