"""Shared machinery for the transformation properties C06-C08: exact generators, an object pool with exact
descriptions, the exact action of a matrix on every object kind, and comparators implementation vs exact."""
from __future__ import annotations

from fractions import Fraction as F

import numpy as np

from mc import exact as X
from mc import oracle as O
from mc.compare import proj_eq

Fr = F


def fm(rows):
    return [[F(x) for x in r] for r in rows]


GEN2 = {
    "shear": fm([[1, 1, 0], [0, 1, 0], [0, 0, 1]]),
    "swap": fm([[0, 1, 0], [1, 0, 0], [0, 0, 1]]),
    "proj": fm([[1, 0, 1], [0, 1, 0], [1, 0, 2]]),
    "det2": fm([[2, 0, 0], [0, 1, 0], [0, 0, 1]]),
    "detm3": fm([[1, 2, 0], [2, 1, 0], [0, 0, 1]]),
    "rot345": [[F(3, 5), F(-4, 5), F(0)], [F(4, 5), F(3, 5), F(0)], [F(0), F(0), F(1)]],
    "trans": fm([[1, 0, 1], [0, 1, -2], [0, 0, 1]]),
    "proj2": fm([[2, 1, 0], [0, 1, 1], [1, 1, 1]]),
}
GEN3 = {
    "shear": fm([[1, 1, 0, 0], [0, 1, 0, 0], [0, 0, 1, 0], [0, 0, 0, 1]]),
    "swap": fm([[0, 0, 1, 0], [1, 0, 0, 0], [0, 1, 0, 0], [0, 0, 0, 1]]),
    "proj": fm([[1, 0, 0, 1], [0, 1, 0, 0], [0, 0, 1, 0], [1, 0, 1, 2]]),
    "det2": fm([[1, 0, 0, 0], [0, 2, 0, 0], [0, 0, 1, 0], [0, 0, 0, 1]]),
    "detm3": fm([[1, 2, 0, 0], [2, 1, 0, 0], [0, 0, 1, 0], [0, 0, 0, 1]]),
    "rot345": [[F(3, 5), F(0), F(-4, 5), F(0)], [F(0), F(1), F(0), F(0)], [F(4, 5), F(0), F(3, 5), F(0)], [F(0), F(0), F(0), F(1)]],
    "trans": fm([[1, 0, 0, 1], [0, 1, 0, -2], [0, 0, 1, 3], [0, 0, 0, 1]]),
    "proj2": fm([[2, 1, 0, 0], [0, 1, 1, 0], [0, 0, 1, 1], [1, 0, 1, 1]]),
}
GEN2["corner0"] = fm([[0, 0, 1], [0, 1, 0], [1, 0, 0]])  # swaps x and w: lower-right entry 0, origin <-> point at infinity
GEN3["corner0"] = fm([[0, 0, 0, 1], [0, 1, 0, 0], [0, 0, 1, 0], [1, 0, 0, 0]])
_i = X.QI(0, 1)
GEN2["unitary"] = [[_i, F(0), F(0)], [F(0), F(1), F(0)], [F(0), F(0), F(1)]]
GEN2["cperm"] = [[F(0), _i, F(0)], [F(1), F(0), F(0)], [F(0), F(0), F(1)]]
GEN2["cshear"] = [[F(1), _i, F(0)], [F(0), F(1), F(0)], [F(0), F(0), F(1)]]
GEN3["unitary"] = [[F(1), F(0), F(0), F(0)], [F(0), _i, F(0), F(0)], [F(0), F(0), F(1), F(0)], [F(0), F(0), F(0), F(1)]]
GEN3["cperm"] = [[F(0), F(0), _i, F(0)], [F(1), F(0), F(0), F(0)], [F(0), F(1), F(0), F(0)], [F(0), F(0), F(0), F(1)]]
GEN3["cshear"] = [[F(1), F(0), _i, F(0)], [F(0), F(1), F(0), F(0)], [F(0), F(0), F(1), F(0)], [F(0), F(0), F(0), F(1)]]
for _g in list(GEN2.values()) + list(GEN3.values()):
    assert X.det(_g) != 0

PAIRS_QUICK = [("shear", "swap"), ("proj", "trans"), ("det2", "rot345"), ("detm3", "proj"), ("trans", "rot345"), ("shear", "proj2"), ("unitary", "shear"), ("cperm", "cshear"), ("det2@int", "detm3@int"), ("corner0", "trans")]


def gens(dim):
    return GEN2 if dim == 2 else GEN3


def canon_matrix(M):
    flat = X.flatten(M)
    return tuple(X.canon(flat))


def mat_np(M):
    a = np.array([[X.tofloat(x) for x in r] for r in M])
    return a


# ---------------------------------------------------------------------------------------------------
# objects: exact description = (kind, data); kinds:
#   point v | hyper h | line3 (p, q) | quadric (A, is_dual) | poly (class name, vertex array nested) | coll (kind-specific list)


def pool(dim):
    """Exact descriptions of the objects every transformation is applied to."""
    if dim == 2:
        P = [
            ("point", (1, 2, 1)),
            ("point", (1, -1, 0)),
            ("point", (2, 4, -2)),
            ("hyper", (1, 2, 3)),
            ("hyper", (1, -1, 0)),
            ("quadric", (((1, 0, 2), (0, -1, 1), (2, 1, 3)), False)),
            ("quadric", (((2, 1, 0), (1, 1, 0), (0, 0, -1)), True)),
            ("circle", ((1, -1), 2)),
            ("poly", ("Segment", ((0, 0, 1), (2, 1, 1)))),
            ("poly", ("Polygon", ((0, 0, 1), (2, 0, 1), (2, 2, 1), (1, 3, 1), (0, 2, 1)))),
            ("poly", ("Triangle", ((1, 0, 1), (0, 2, 1), (-1, -1, 1)))),
            ("poly", ("Rectangle", ((0, 0, 1), (3, 0, 1), (3, 1, 1), (0, 1, 1)))),
            ("coll", ("point", ((1, 2, 1), (1, -1, 0), (0, 0, 1), (3, -1, 2)))),
            ("coll", ("point22", ((1, 2, 1), (1, -1, 0), (0, 0, 1), (3, -1, 2)))),
            ("coll", ("hyper", ((1, 2, 3), (1, -1, 0), (0, 0, 1)))),
            ("coll", ("quadric", ((((1, 0, 2), (0, -1, 1), (2, 1, 3)), ((1, 0, 0), (0, 1, 0), (0, 0, -1))), False))),
            ("coll", ("quadric", ((((1, 0, 2), (0, -1, 1), (2, 1, 3)), ((1, 0, 0), (0, 1, 0), (0, 0, -1))), True))),
            ("coll", ("Segment", (((0, 0, 1), (2, 1, 1)), ((1, 1, 1), (1, -1, 0)), ((-1, 2, 1), (0, 3, 1))))),
            ("coll", ("Polygon", (((0, 0, 1), (2, 0, 1), (2, 2, 1), (0, 2, 1)), ((1, 1, 1), (4, 1, 1), (4, 2, 1), (1, 3, 1))))),
        ]
    else:
        P = [
            ("point", (1, 2, 3, 1)),
            ("point", (1, -1, 2, 0)),
            ("point", (2, 0, 4, -2)),
            ("hyper", (1, 2, 3, -1)),
            ("hyper", (1, -1, 0, 0)),
            ("line3", ((1, 0, 2, 1), (0, 1, 1, 1))),
            ("line3", ((1, 1, 0, 0), (0, 0, 1, 1))),
            ("quadric", (((1, 0, 0, 1), (0, 2, 0, 0), (0, 0, -1, 1), (1, 0, 1, 3)), False)),
            ("quadric", (((1, 0, 0, 0), (0, 1, 1, 0), (0, 1, 3, 0), (0, 0, 0, -2)), True)),
            ("sphere", ((1, 0, -1), 2)),
            ("poly", ("Segment", ((0, 0, 1, 1), (2, 1, 0, 1)))),
            ("poly", ("Polygon", ((0, 0, 1, 1), (2, 0, 1, 1), (2, 2, 1, 1), (1, 3, 1, 1), (0, 2, 1, 1)))),
            ("poly", ("Triangle", ((1, 0, 0, 1), (0, 2, 0, 1), (0, 0, 3, 1)))),
            ("cuboid", ((0, 0, 0), (2, 0, 0), (0, 1, 0), (0, 0, 3))),
            ("simplex", ((0, 0, 0), (1, 0, 0), (0, 2, 0), (1, 1, 3))),
            ("coll", ("point", ((1, 2, 3, 1), (1, -1, 2, 0), (0, 0, 0, 1), (3, -1, 1, 2)))),
            ("coll", ("hyper", ((1, 2, 3, -1), (1, -1, 0, 0), (0, 0, 0, 1)))),
            ("coll", ("line3", (((1, 0, 2, 1), (0, 1, 1, 1)), ((1, 1, 0, 0), (0, 0, 1, 1)), ((0, 0, 0, 1), (1, 2, 3, 1))))),
            ("coll", ("Segment", (((0, 0, 1, 1), (2, 1, 0, 1)), ((1, 1, 1, 1), (1, -1, 0, 0))))),
            ("coll", ("Polygon", (((0, 0, 1, 1), (2, 0, 1, 1), (2, 2, 1, 1), (0, 2, 1, 1)), ((1, 1, 0, 1), (1, 4, 1, 1), (1, 4, 2, 1), (1, 1, 3, 1))))),
        ]
    return P


def kind_name(desc):
    k, d = desc
    if k == "poly":
        return d[0]
    if k == "coll":
        return "coll:" + d[0] + (":dual" if d[0] == "quadric" and d[1][1] else "")
    if k == "quadric":
        return "quadric:dual" if d[1] else "quadric"
    return k


def build(G, desc, dtype=float):
    """The real geometer object for an exact description."""
    k, d = desc
    A = lambda v: np.array(v, dtype=dtype)  # noqa: E731
    if k == "point":
        return G.Point(A(d))
    if k == "hyper":
        return (G.Line if len(d) == 3 else G.Plane)(A(d))
    if k == "line3":
        return G.Line(G.Point(A(d[0])), G.Point(A(d[1])))
    if k == "quadric":
        M, dual = d
        return (G.Conic if len(M) == 3 else G.Quadric)(A(M), is_dual=dual)
    if k == "circle":
        return G.Circle(G.Point(*d[0]), d[1])
    if k == "sphere":
        return G.Sphere(G.Point(*d[0]), d[1])
    if k == "poly":
        cls, verts = d
        return getattr(G, cls)(*[G.Point(A(v)) for v in verts])
    if k == "cuboid":
        return G.Cuboid(*[G.Point(*v) for v in d])
    if k == "simplex":
        return G.Simplex(*[G.Point(*v) for v in d])
    if k == "coll":
        sub, items = d
        if sub == "point":
            return G.PointCollection(A(items))
        if sub == "point22":
            return G.PointCollection(A(items).reshape(2, 2, -1))
        if sub == "hyper":
            return (G.LineCollection if len(items[0]) == 3 else G.PlaneCollection)(A(items))
        if sub == "line3":
            return G.LineCollection(G.PointCollection(A([i[0] for i in items])), G.PointCollection(A([i[1] for i in items])))
        if sub == "quadric":
            Ms, dual = items
            return G.QuadricCollection(A(Ms), is_dual=dual)
        if sub == "Segment":
            return G.SegmentCollection(G.PointCollection(A([i[0] for i in items])), G.PointCollection(A([i[1] for i in items])))
        if sub == "Polygon":
            nv = len(items[0])
            return G.PolygonCollection(*[G.PointCollection(A([it[j] for it in items])) for j in range(nv)])
    raise KeyError(k)


def exact_state(G, desc, obj):
    """Exact snapshot of an object: a dict of exact coordinate data derived from the description (and, for
    constructor-defined kinds, from the constructed object's array, which holds dyadic/integer values)."""
    k, d = desc
    if k == "point":
        return {"kind": "vec", "v": X.vec(d)}
    if k == "hyper":
        return {"kind": "hyper", "v": X.vec(d)}
    if k == "line3":
        return {"kind": "line3", "pq": [X.vec(d[0]), X.vec(d[1])]}
    if k == "quadric":
        return {"kind": "quadric", "A": X.mat(d[0]), "dual": d[1]}
    if k in ("circle", "sphere"):
        c, r = d
        n = len(c) + 1
        A_ = [[F(int(i == j)) for j in range(n)] for i in range(n)]
        for i in range(n - 1):
            A_[i][n - 1] = A_[n - 1][i] = -F(c[i])
        A_[n - 1][n - 1] = sum(F(x) ** 2 for x in c) - F(r) ** 2
        return {"kind": "quadric", "A": A_, "dual": False}
    if k == "poly":
        return {"kind": "verts", "V": [X.vec(v) for v in d[1]], "shape": (len(d[1]),)}
    if k in ("cuboid", "simplex"):
        # vertex layout is whatever the constructor produced (integers): read it once from the constructed object
        arr = np.asarray(obj.array)
        assert np.all(arr == np.round(arr))
        flat = arr.reshape(-1, arr.shape[-1])
        return {"kind": "verts", "V": [X.vec([int(x) for x in row]) for row in flat], "shape": arr.shape[:-1]}
    if k == "coll":
        sub, items = d
        if sub in ("point", "point22"):
            return {"kind": "vecs", "V": [X.vec(v) for v in items]}
        if sub == "hyper":
            return {"kind": "hypers", "V": [X.vec(v) for v in items]}
        if sub == "line3":
            return {"kind": "line3s", "PQ": [[X.vec(i[0]), X.vec(i[1])] for i in items]}
        if sub == "quadric":
            return {"kind": "quadrics", "A": [X.mat(m) for m in items[0]], "dual": items[1]}
        if sub in ("Segment", "Polygon"):
            return {"kind": "verts", "V": [X.vec(v) for it in items for v in it], "shape": (len(items), len(items[0]))}
    raise KeyError(k)


_INV = {}


def _inv_cached(M):
    key = tuple(tuple(r) for r in M)
    if key not in _INV:
        if len(_INV) > 2000:
            _INV.clear()
        _INV[key] = X.inv(M)
    return _INV[key]


def act(M, st):
    """Exact action of the invertible matrix M on an exact object state."""
    k = st["kind"]
    if k in ("vec",):
        return {**st, "v": X.matvec(M, st["v"])}
    if k == "vecs":
        return {**st, "V": [X.matvec(M, v) for v in st["V"]]}
    if k == "verts":
        return {**st, "V": [X.matvec(M, v) for v in st["V"]]}
    Mi = _inv_cached(M)
    MiT = X.transpose(Mi)
    if k == "hyper":
        return {**st, "v": X.matvec(MiT, st["v"])}
    if k == "hypers":
        return {**st, "V": [X.matvec(MiT, v) for v in st["V"]]}
    if k == "line3":
        return {**st, "pq": [X.matvec(M, st["pq"][0]), X.matvec(M, st["pq"][1])]}
    if k == "line3s":
        return {**st, "PQ": [[X.matvec(M, p), X.matvec(M, q)] for p, q in st["PQ"]]}
    if k == "quadric":
        A = st["A"]
        A2 = X.matmul(X.matmul(M, A), X.transpose(M)) if st["dual"] else X.matmul(X.matmul(MiT, A), Mi)
        return {**st, "A": A2}
    if k == "quadrics":
        out = []
        for A in st["A"]:
            out.append(X.matmul(X.matmul(M, A), X.transpose(M)) if st["dual"] else X.matmul(X.matmul(MiT, A), Mi))
        return {**st, "A": out}
    raise KeyError(k)


def fl(v):
    return np.array([X.tofloat(x) for x in v])


def line3_array(p, q):
    S = O.Sub([p, q], 4)
    return np.array([[X.tofloat(x) for x in r] for r in O.expected_array(S, "line3")])


def agrees(obj, st, tol=1e-9):
    """Does the real object denote the exact state? Returns None or a short description of the disagreement."""
    k = st["kind"]
    a = np.asarray(obj.array)
    if k in ("vec", "hyper"):
        return None if a.shape == (len(st["v"]),) and proj_eq(a, fl(st["v"]), tol) else "coordinates"
    if k in ("vecs", "hypers"):
        rows = a.reshape(-1, a.shape[-1])
        if len(rows) != len(st["V"]):
            return "shape"
        for i, v in enumerate(st["V"]):
            if not proj_eq(rows[i], fl(v), tol):
                return f"coordinates at position {i}"
        return None
    if k == "line3":
        return None if a.shape == (4, 4) and proj_eq(a, line3_array(*st["pq"]), tol) else "line coordinates"
    if k == "line3s":
        if a.shape != (len(st["PQ"]), 4, 4):
            return "shape"
        for i, (p, q) in enumerate(st["PQ"]):
            if not proj_eq(a[i], line3_array(p, q), tol):
                return f"line coordinates at position {i}"
        return None
    if k == "quadric":
        if bool(obj.is_dual) != bool(st["dual"]):
            return "is_dual flag"
        return None if proj_eq(a, np.array([[X.tofloat(x) for x in r] for r in st["A"]]), tol) else "matrix"
    if k == "quadrics":
        if bool(obj.is_dual) != bool(st["dual"]):
            return "is_dual flag"
        if len(a) != len(st["A"]):
            return "shape"
        for i, A in enumerate(st["A"]):
            if not proj_eq(a[i], np.array([[X.tofloat(x) for x in r] for r in A]), tol):
                return f"matrix at position {i}"
        return None
    if k == "verts":
        if a.shape[:-1] != tuple(st["shape"]):
            return f"shape {a.shape[:-1]} != {tuple(st['shape'])}"
        rows = a.reshape(-1, a.shape[-1])
        for i, v in enumerate(st["V"]):
            if not proj_eq(rows[i], fl(v), tol):
                return f"vertex {i}"
        # cached supporting line / plane must be the line / plane of the (transformed) vertices
        line = getattr(obj, "_line", None)
        if line is not None:
            nv = st["shape"][-1]
            L = np.asarray(line.array)
            cnt = len(st["V"]) // nv
            for c in range(cnt):
                p, q = st["V"][c * nv], st["V"][c * nv + 1]
                n = len(p)
                if n == 3:
                    want = fl(X.cross(p, q))
                    got = L.reshape(-1, 3)[c]
                else:
                    want = line3_array(p, q)
                    got = L.reshape(-1, 4, 4)[c]
                if not proj_eq(got, want, tol):
                    return f"cached _line of element {c}"
        plane = getattr(obj, "_plane", None)
        if plane is not None and len(st["V"][0]) == 4 and len(st["shape"]) <= 2 and type(obj).__name__ not in ("Cuboid", "Simplex", "Polyhedron"):
            nv = st["shape"][-1]
            cnt = len(st["V"]) // nv
            Pl = np.asarray(plane.array).reshape(-1, 4)
            for c in range(cnt):
                want = fl(X.cross(*st["V"][c * nv : c * nv + 3]))
                if not proj_eq(Pl[c], want, tol):
                    return f"cached _plane of element {c}"
        return None
    raise KeyError(k)


def state_json(st):
    def conv(x):
        if isinstance(x, list):
            return [conv(y) for y in x]
        if isinstance(x, (F, int)):
            return str(F(x))
        if isinstance(x, X.QI):
            return repr(x)
        return x

    return {k: conv(v) for k, v in st.items()}


# strongly contracting / expanding similarities (determinant 1e-9 / 1e9 in 3D): only used where a single transformation is
# applied (C07), never in words or powers - there the scale compounds beyond anything the absolute tolerances are meant for
GEN_EXTRA = {
    2: {"contract": [[F(1, 1000), F(0), F(0)], [F(0), F(1, 1000), F(0)], [F(0), F(0), F(1)]], "expand": fm([[1000, 0, 0], [0, 1000, 0], [0, 0, 1]])},
    3: {"contract": [[F(1, 1000), F(0), F(0), F(0)], [F(0), F(1, 1000), F(0), F(0)], [F(0), F(0), F(1, 1000), F(0)], [F(0), F(0), F(0), F(1)]], "expand": fm([[1000, 0, 0, 0], [0, 1000, 0, 0], [0, 0, 1000, 0], [0, 0, 0, 1]])},
}


def gen_matrix(dim, gname):
    name = gname.split("@")[0]
    return GEN_EXTRA[dim][name] if name in GEN_EXTRA[dim] else gens(dim)[name]


def real_t(G, dim, gname):
    """The real Transformation for a generator name; 'name@int' builds it from an int64 array (R1: integer
    matrices are also fed with integer dtype; their inverses are not integer matrices)."""
    M = gen_matrix(dim, gname)
    if gname.endswith("@int"):
        return G.Transformation(np.array([[int(x) for x in r] for r in M], dtype=np.int64))
    return G.Transformation(mat_np(M))
