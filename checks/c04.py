"""C04: collections compute element by element what single objects compute (differential against the library's own
single-object results, exhaustive over the catalogue x collection shapes x single/collection mixes x positions)."""
from __future__ import annotations

import itertools

import numpy as np

from checks import catalog as C
from checks.c03 import same_result
from mc.compare import proj_eq
from mc.core import family

SHAPES = [(1,), (2,), (3,), (2, 2), (1, 3)]
SHAPES_T = SHAPES + [(4,), (2, 3), (3, 1), (2, 1, 2), (1, 1)]


def coll_class(G, single):
    n = type(single).__name__
    return {
        "Point": G.PointCollection,
        "Line": G.LineCollection,
        "Plane": G.PlaneCollection,
        "Quadric": G.QuadricCollection,
        "Conic": G.QuadricCollection,
        "Transformation": G.TransformationCollection,
        "Segment": G.SegmentCollection,
        "Polygon": G.PolygonCollection,
        "Triangle": G.PolygonCollection,
        "Rectangle": G.PolygonCollection,
    }.get(n)


class Elem:
    """A light stand-in for 'the element at one position of a collection result'."""

    def __init__(self, coll, idx):
        self.array = np.asarray(coll.array)[idx]
        self.is_dual = getattr(coll, "is_dual", None)
        self.tensor_shape = coll.tensor_shape
        self._cls = type(coll)


def elem_same(kind, single, coll_res, idx, G):
    """Compare position idx of a collection result with the single-object result. Returns None or a reason."""
    if kind in ("bool", "num", "angle", "arr"):
        arr = np.asarray(coll_res)
        nd = len(idx)
        if arr.ndim < nd:
            # a result that broadcasts against the collection shape (e.g. a scalar False for "no position is collinear")
            # still says at each position what the single call says
            if kind != "arr" and arr.ndim == 0:
                return same_result(kind, single, arr)
            return f"result has shape {arr.shape}, expected leading collection shape"
        return same_result(kind, single, arr[idx])
    if kind in ("obj", "poly"):
        if not hasattr(coll_res, "array"):
            return f"result is {type(coll_res).__name__}"
        want_cls = coll_class(G, single)
        if want_cls is not None and type(coll_res) is not want_cls:
            return f"collection class {type(coll_res).__name__}, expected {want_cls.__name__}"
        a = np.asarray(coll_res.array)
        if a.shape[: len(idx)] == () or a.ndim - len(idx) != np.asarray(single.array).ndim:
            return f"result array shape {a.shape} does not hold elements of shape {np.asarray(single.array).shape}"
        e = a[idx]
        s = np.asarray(single.array)
        if getattr(single, "is_dual", None) != getattr(coll_res, "is_dual", None):
            return "is_dual differs"
        if kind == "poly":
            return None if all(proj_eq(p, q, 1e-7) for p, q in zip(e.reshape(-1, e.shape[-1]), s.reshape(-1, s.shape[-1]))) else "vertex differs"
        if not np.any(e) and not np.any(s):
            return None
        return None if proj_eq(e, s, 1e-7) else "object differs"
    if kind == "objs":
        if not isinstance(coll_res, (list, tuple)):
            return f"result is {type(coll_res).__name__}, expected a list"
        singles = [np.asarray(x.array) for x in single]
        elems = [np.asarray(x.array)[idx] for x in coll_res]

        def dedupe(lst):
            out = []
            for x in lst:
                if not any(proj_eq(x, y, 1e-6) for y in out):
                    out.append(x)
            return out

        if len(singles) != len(elems):
            singles, elems = dedupe(singles), dedupe(elems)
        if len(singles) != len(elems):
            return f"number of results differs: {len(elems)} vs {len(singles)}"
        rest = list(singles)
        for x in elems:
            k = next((i for i, y in enumerate(rest) if proj_eq(x, y, 1e-6)), None)
            if k is None:
                return "list differs (as a multiset)"
            rest.pop(k)
        return None
    raise KeyError(kind)


def enum_ops(tier, seed):
    for op in C.OPS:
        if op.coll and all(k in C.COLLECTABLE or k == "NUM" for k in op.kinds):
            yield (op.name,)


@family("C04", "elementwise", enum_ops)
def case_ops(ctx, cfg):
    import geometer as G
    from geometer.exceptions import LinearDependenceError

    (name,) = cfg
    op = C.OP_BY_NAME[name]
    cfgs = C.op_configs(op)
    N = len(cfgs)
    k = len(op.kinds)
    collectable = [i for i, kd in enumerate(op.kinds) if kd != "NUM"]
    masks = [m for m in itertools.product((0, 1), repeat=len(collectable)) if any(m)]
    single_cache = {}
    seen_sigs = set()

    def fail_once(sig, *a, **kw):
        if sig not in seen_sigs:
            seen_sigs.add(sig)
            ctx.fail(sig, *a, **kw)

    def single(spec):
        if spec not in single_cache:
            args = [C.build(G, kd, s) for kd, s in zip(op.kinds, spec)]
            r, e = ctx.call(op.fn, G, *args)
            single_cache[spec] = e if e is not None else r
        return single_cache[spec]

    deep = ctx.tier == "thorough"
    for shape, stride in [(sh, sd) for sh in (SHAPES_T if deep else SHAPES) for sd in ((1, 2) if deep and int(np.prod(sh)) > 1 else (1,))]:
        m = int(np.prod(shape))
        starts = range(0, N)
        for st in starts:
            # the elements of the collection are consecutive configurations of the operation's catalogue (thorough: also
            # every second one, so that other combinations of elements share a collection)
            window = [cfgs[(st + stride * t) % N] for t in range(m)]
            for mask in masks:
                is_coll = {collectable[j]: bool(b) for j, b in enumerate(mask)}
                # specs per position: collection arguments vary over the window, single arguments stay at window[0]
                specs = [tuple(window[t][i] if is_coll.get(i, False) else window[0][i] for i in range(k)) for t in range(m)]
                args = []
                for i, kd in enumerate(op.kinds):
                    if is_coll.get(i, False):
                        args.append(C.build_collection(G, kd, [s[i] for s in specs], shape))
                    else:
                        args.append(C.build(G, kd, window[0][i]))
                if not all(C.valid_spec(op, s) for s in specs):
                    ctx.skipped += 1
                    continue
                ctx.state((name, shape, st, mask, stride))
                singles = [single(s) for s in specs]
                res, e = ctx.call(op.fn, G, *args)
                ctx.trace(m)
                raising = [s for s in singles if isinstance(s, BaseException)]
                layout = "all-collections" if all(mask) else "mixed-single-collection"
                inputs = {"operation": name, "shape": shape, "collection_arguments": [i for i in is_coll if is_coll[i]], "specs": specs}
                if raising:
                    ctx.tally("some-element-raises")
                    if e is None:
                        fail_once(f"{name}:{layout}:element-raises-but-collection-does-not", name, inputs, repr(raising[0]), "returned a value")
                        continue
                    continue
                if e is not None:
                    fail_once(f"{name}:{layout}:{'length-1' if shape == (1,) else 'shape' + str(len(shape)) + 'd'}:{type(e).__name__}", name, inputs, "element-wise results", e)
                    continue
                for t, idx in enumerate(np.ndindex(*shape)):
                    why = elem_same(op.res, singles[t], res, idx, G)
                    if why:
                        code = "collection-class" if why.startswith("collection class") else "result-shape" if "shape" in why else "value"
                        fail_once(f"{name}:{layout}:{'length-1' if shape == (1,) else 'shape' + str(len(shape)) + 'd'}:{code}", name, {**inputs, "position": idx}, singles[t] if not hasattr(singles[t], "array") else singles[t].array, why)
                        break


# ---------------------------------------------------------------------------------------------------
# integer indexing and iteration yield the element class with attributes intact


def enum_index(tier, seed):
    for kind in sorted(C.COLLECTABLE):
        for shape in ((3,), (2, 2), (1,)):
            yield (kind, shape, False)
    yield ("CON", (3,), True)
    yield ("Q3", (2,), True)
    yield ("CON", (2, 2), True)


ELEMENT_CLASS = {"P2": "Point", "P3": "Point", "L2": "Line", "L3": "Line", "E3": "Plane", "CON": "Quadric", "Q3": "Quadric", "T2": "Transformation", "T3": "Transformation", "SEG2": "Segment", "SEG3": "Segment", "POLY2": "Polygon", "POLY3": "Polygon"}


@family("C04", "indexing_iteration", enum_index)
def case_index(ctx, cfg):
    import geometer as G

    kind, shape, dual = cfg
    shape = tuple(shape)
    m = int(np.prod(shape))
    pool = C.POOL[kind]
    specs = [pool[i % len(pool)] for i in range(m)]
    coll = C.build_collection(G, kind, specs, shape)
    if dual:
        coll = G.QuadricCollection(coll.array, is_dual=True)
    singles = [C.build(G, kind, s) for s in specs]
    if dual:
        singles = [type(x)(x.array, is_dual=True) for x in singles]
    ecls = getattr(G, ELEMENT_CLASS[kind])
    ctx.state((kind, shape, dual))

    def check_elem(el, t, how):
        s = singles[t]
        inputs = {"kind": kind, "shape": shape, "how": how, "position": t, "is_dual": dual}
        if not isinstance(el, ecls) or el.free_indices != s.free_indices:
            ctx.fail(f"indexing:{type(coll).__name__}:{how}:class", how, inputs, ecls.__name__, f"{type(el).__name__} with {getattr(el, 'free_indices', '?')} free indices")
            return False
        if el.tensor_shape != s.tensor_shape or el._covariant_indices != s._covariant_indices or not proj_eq(el.array, s.array, 1e-9):
            ctx.fail(f"indexing:{type(coll).__name__}:{how}:value-or-index-types", how, inputs, s.array, el.array)
            return False
        if hasattr(s, "is_dual") and bool(getattr(el, "is_dual", None)) != bool(dual):
            ctx.fail(f"indexing:{type(coll).__name__}:{how}:is_dual", how, inputs, dual, getattr(el, "is_dual", None))
            return False
        if hasattr(s, "pdim") and getattr(el, "pdim", None) != s.pdim:
            ctx.fail(f"indexing:{type(coll).__name__}:{how}:pdim", how, inputs, s.pdim, getattr(el, "pdim", None))
            return False
        for attr in ("_line", "_plane"):
            sv = getattr(s, attr, None)
            if sv is not None:
                ev = getattr(el, attr, None)
                if ev is None or ev.free_indices != 0 or not proj_eq(ev.array, sv.array, 1e-9):
                    ctx.fail(f"indexing:{type(coll).__name__}:{how}:cached{attr}", how, inputs, sv.array, None if ev is None else ev.array)
                    return False
        return True

    for t, idx in enumerate(np.ndindex(*shape)):
        forms = [("c[i,j]" if len(shape) > 1 else "c[i]", idx if len(shape) > 1 else idx[0])]
        neg = tuple(i - n for i, n in zip(idx, shape))
        forms.append(("c[-i]", neg if len(shape) > 1 else neg[0]))
        if len(shape) > 1:
            forms.append(("c[i][j]", None))
        for how, ix in forms:
            if how == "c[i][j]":
                el, e = ctx.call(lambda: coll[idx[0]][idx[1]])
            else:
                el, e = ctx.call(lambda: coll[ix])
            ctx.trace()
            if e is not None:
                ctx.fail(f"indexing:{type(coll).__name__}:{how}:{type(e).__name__}", how, {"kind": kind, "shape": shape, "index": idx}, "element", e)
                return
            if not check_elem(el, t, how):
                return
    # expand_dims: a new collection axis of length one at every admissible position (positive and negative form); the
    # elements behind it are unchanged
    nfree = len(shape)
    rank = np.asarray(coll.array).ndim
    for a in list(range(nfree + 1)) + [a - (rank + 1) for a in range(nfree + 1)]:
        ce, e = ctx.call(coll.expand_dims, a)
        ctx.trace()
        pos = a if a >= 0 else a + rank + 1
        want_shape = shape[:pos] + (1,) + shape[pos:]
        if e is not None or type(ce) is not type(coll) or np.asarray(ce.array).shape[: nfree + 1] != want_shape or ce.free_indices != coll.free_indices + 1:
            ctx.fail(f"expand_dims:{type(coll).__name__}:{type(e).__name__ if e is not None else 'shape-or-class'}", "expand_dims", {"kind": kind, "shape": shape, "axis": a}, list(want_shape), e if e is not None else [type(ce).__name__, list(np.asarray(ce.array).shape), ce.free_indices])
            return
        for t, idx in enumerate(np.ndindex(*shape)):
            ix = idx[:pos] + (0,) + idx[pos:]
            el, e = ctx.call(lambda: ce[ix])
            ctx.trace()
            if e is not None:
                ctx.fail(f"expand_dims:{type(coll).__name__}:index:{type(e).__name__}", "expand_dims(a)[i]", {"kind": kind, "shape": shape, "axis": a, "index": ix}, "element", e)
                return
            if not check_elem(el, t, f"expand_dims({'neg' if a < 0 else 'pos'})[i]"):
                return
    # iteration
    it, e = ctx.call(lambda: list(coll))
    ctx.trace()
    if e is not None or len(it) != shape[0]:
        ctx.fail(f"iteration:{type(coll).__name__}:{type(e).__name__ if e is not None else 'length'}", "iter", {"kind": kind, "shape": shape}, shape[0], e if e is not None else len(it))
        return
    if len(shape) == 1:
        for t, el in enumerate(it):
            if not check_elem(el, t, "iter"):
                return
        if len(coll) != shape[0]:
            ctx.fail("len", "len", {"kind": kind, "shape": shape}, shape[0], len(coll))
            return
    else:
        for i, row in enumerate(it):
            if type(row) is not type(coll) or row.array.shape[:1] != shape[1:]:
                ctx.fail(f"iteration:{type(coll).__name__}:row-class", "iter", {"kind": kind, "shape": shape}, type(coll).__name__, type(row).__name__)
                return
    # slices and masks keep the values (class of sliced collections is not part of the statement)
    if len(shape) == 1 and shape[0] >= 2:
        for how, ix, sel in (("c[0:2]", slice(0, 2), [0, 1]), ("c[mask]", np.array([True] + [False] * (shape[0] - 2) + [True]), [0, shape[0] - 1]), ("c[[1,0]]", [1, 0], [1, 0])):
            r, e = ctx.call(lambda: coll[ix])
            ctx.trace()
            if e is not None or not hasattr(r, "array") or len(r.array) != len(sel) or not all(proj_eq(r.array[j], singles[t].array, 1e-9) for j, t in enumerate(sel)):
                ctx.fail(f"indexing:{type(coll).__name__}:{how}:value", how, {"kind": kind, "shape": shape}, "selected elements", e if e is not None else getattr(r, "array", r))
                return
