"""Shared data and exact oracles for the polytope properties C16-C18: polygon catalogue, embeddings, exact
point-in-polygon and segment predicates on integer (doubled) coordinates."""
from __future__ import annotations

import itertools
from fractions import Fraction as F

POLYGONS = {
    "triangle_ccw": [(0, 0), (4, 0), (0, 3)],
    "triangle_cw": [(0, 0), (0, 3), (4, 0)],
    "triangle_obtuse": [(0, 0), (5, 1), (1, 1)],
    "square": [(0, 0), (2, 0), (2, 2), (0, 2)],
    "rectangle": [(-1, 1), (3, 1), (3, 2), (-1, 2)],
    "quad_skew": [(0, 0), (3, 1), (4, 4), (-1, 2)],
    "dart": [(0, 0), (2, 1), (4, 0), (2, 4)],
    "L": [(0, 0), (3, 0), (3, 1), (1, 1), (1, 3), (0, 3)],
    "comb": [(0, 0), (5, 0), (5, 2), (4, 2), (4, 1), (3, 1), (3, 2), (2, 2), (2, 1), (1, 1), (1, 2), (0, 2)],
    "level_vertices": [(0, 0), (2, 2), (4, 0), (6, 2), (6, 4), (3, 2), (0, 4)],
    "pentagon": [(0, 0), (2, -1), (4, 1), (3, 3), (0, 2)],
}


def rotations(poly, all_rots=True):
    n = len(poly)
    out = []
    for r in range(n if all_rots else 1):
        v = poly[r:] + poly[:r]
        out.append(("rot%d" % r, v))
        out.append(("rot%d_rev" % r, v[::-1]))
    return out


# integer affine embeddings of the plane into 3-space: (origin, u, v) with x,y -> origin + x u + y v
EMBEDDINGS = {
    "z=1": ((0, 0, 1), (1, 0, 0), (0, 1, 0)),
    "z=0": ((0, 0, 0), (1, 0, 0), (0, 1, 0)),
    "x=2": ((2, 0, 0), (0, 1, 0), (0, 0, 1)),
    "y=-1": ((0, -1, 0), (0, 0, 1), (1, 0, 0)),
    "x+y+z=3": ((3, 0, 0), (-1, 1, 0), (-1, 0, 1)),
    "generic": ((1, -2, 0), (1, 0, 2), (0, 1, -1)),
    "through_origin_skew": ((0, 0, 0), (1, 1, 0), (0, 1, 1)),
}


def embed(emb, x, y):
    o, u, v = EMBEDDINGS[emb]
    return tuple(o[i] + x * u[i] + y * v[i] for i in range(3))


def normal(emb):
    o, u, v = EMBEDDINGS[emb]
    return (u[1] * v[2] - u[2] * v[1], u[2] * v[0] - u[0] * v[2], u[0] * v[1] - u[1] * v[0])


def on_segment(p, a, b):
    """p on the closed segment ab (exact, any dimension; coordinates ints or Fractions)."""
    d = [y - x for x, y in zip(a, b)]
    e = [y - x for x, y in zip(a, p)]
    # collinear: all 2x2 minors vanish
    for i in range(len(d)):
        for j in range(i + 1, len(d)):
            if d[i] * e[j] - d[j] * e[i] != 0:
                return False
    dd = sum(x * x for x in d)
    de = sum(x * y for x, y in zip(d, e))
    if dd == 0:
        return all(x == 0 for x in e)
    return 0 <= de <= dd


def pip(poly, p):
    """Exact point-in-polygon for a simple polygon: 'boundary' / 'vertex' / 'inside' / 'outside'."""
    n = len(poly)
    x, y = p
    if any((x, y) == tuple(v) for v in poly):
        return "vertex"
    inside = False
    for i in range(n):
        (x1, y1), (x2, y2) = poly[i], poly[(i + 1) % n]
        if on_segment((x, y), (x1, y1), (x2, y2)):
            return "boundary"
        if (y1 > y) != (y2 > y):
            lhs = (x - x1) * (y2 - y1)
            rhs = (x2 - x1) * (y - y1)
            if (lhs < rhs) == (y2 > y1):
                inside = not inside
    return "inside" if inside else "outside"


def position_class(poly, p):
    """Finer classification used for branch tallies: on an edge extension, level with a vertex, ..."""
    w = pip(poly, p)
    if w in ("vertex", "boundary"):
        return w
    x, y = p
    n = len(poly)
    tags = []
    if any(y == v[1] for v in poly):
        tags.append("level-with-vertex")
    for i in range(n):
        (x1, y1), (x2, y2) = poly[i], poly[(i + 1) % n]
        if (x2 - x1) * (y - y1) - (y2 - y1) * (x - x1) == 0:
            tags.append("on-edge-extension")
            break
    return w + ("+" + "+".join(tags) if tags else "")


def half_grid(poly, margin=1):
    xs = [v[0] for v in poly]
    ys = [v[1] for v in poly]
    out = []
    for x2 in range(2 * (min(xs) - margin), 2 * (max(xs) + margin) + 1):
        for y2 in range(2 * (min(ys) - margin), 2 * (max(ys) + margin) + 1):
            out.append((F(x2, 2), F(y2, 2)))
    return out


def shoelace(poly):
    n = len(poly)
    return sum(F(poly[i][0]) * poly[(i + 1) % n][1] - F(poly[(i + 1) % n][0]) * poly[i][1] for i in range(n)) / 2


def centroid(poly):
    n = len(poly)
    A = shoelace(poly)
    cx = sum((F(poly[i][0]) + poly[(i + 1) % n][0]) * (F(poly[i][0]) * poly[(i + 1) % n][1] - F(poly[(i + 1) % n][0]) * poly[i][1]) for i in range(n)) / (6 * A)
    cy = sum((F(poly[i][1]) + poly[(i + 1) % n][1]) * (F(poly[i][0]) * poly[(i + 1) % n][1] - F(poly[(i + 1) % n][0]) * poly[i][1]) for i in range(n)) / (6 * A)
    return cx, cy
