"""C03: results depend on the projective object, not on its homogeneous representative.

Metamorphic and exhaustive over the catalogue: every operation x every argument position (every vertex of a polytope)
x every scale factor of the declared set x every base configuration; the result with one argument rescaled must equal
the result of the base call (predicates identical, numbers equal, objects projectively equal, lists as multisets)."""
from __future__ import annotations

import itertools

import numpy as np

from checks import catalog as C
from mc import exact as X
from mc.compare import angle_eq_mod_pi, arr_eq, num_eq, proj_eq
from mc.core import family, lattice


def _arrs(x):
    return np.asarray(x.array)


def same_result(kind, a, b, tol=1e-7):
    """Equality of two results of one operation under the freedom the property allows. Returns None or a reason."""
    ea, eb = isinstance(a, BaseException), isinstance(b, BaseException)
    if ea or eb:
        if ea and eb and type(a) is type(b):
            return None
        return f"exception mismatch: {type(a).__name__ if ea else 'value'} vs {type(b).__name__ if eb else 'value'}"
    if kind in ("obj", "poly") and (isinstance(a, (list, tuple)) or isinstance(b, (list, tuple))):
        if not (isinstance(a, (list, tuple)) and isinstance(b, (list, tuple))):
            return "one result is a list, the other is not"
        kind = "objs" if kind == "obj" else "polys"
    if kind in ("obj", "poly") and not (hasattr(a, "array") and hasattr(b, "array")):
        return None if (not hasattr(a, "array") and not hasattr(b, "array") and np.array_equal(np.asarray(a), np.asarray(b))) else "result kinds differ"
    if kind == "bool":
        return None if np.array_equal(np.asarray(a), np.asarray(b)) else "predicate differs"
    if kind == "num":
        return None if arr_eq(np.asarray(a, dtype=complex), np.asarray(b, dtype=complex), tol, tol) else "number differs"
    if kind == "angle":
        x, y = np.atleast_1d(np.asarray(a)), np.atleast_1d(np.asarray(b))
        if x.shape != y.shape:
            return "shape differs"
        return None if all((np.isnan(p) and np.isnan(q)) or angle_eq_mod_pi(p, q, tol) for p, q in zip(x.ravel(), y.ravel())) else "angle differs (mod pi)"
    if kind == "arr_proj":
        xa, xb = np.asarray(_arrs(a) if hasattr(a, "array") else a), np.asarray(_arrs(b) if hasattr(b, "array") else b)
        if not np.all(np.isfinite(xa)) and not np.all(np.isfinite(xb)):
            return None
        return None if proj_eq(_arrs(a) if hasattr(a, "array") else a, _arrs(b) if hasattr(b, "array") else b, tol) else "matrix differs projectively"
    if kind == "arr":
        return None if arr_eq(np.asarray(a, dtype=complex), np.asarray(b, dtype=complex), tol, tol) else "array differs"
    if kind == "obj":
        if type(a) is not type(b):
            return f"class differs: {type(a).__name__} vs {type(b).__name__}"
        if getattr(a, "is_dual", None) != getattr(b, "is_dual", None):
            return "is_dual differs"
        x, y = _arrs(a), _arrs(b)
        if x.shape != y.shape:
            return "shape differs"
        nt = sum(a.tensor_shape)
        xs = x.reshape((-1,) + x.shape[x.ndim - nt :])
        ys = y.reshape((-1,) + y.shape[y.ndim - nt :])
        for i in range(len(xs)):
            if not np.any(xs[i]) and not np.any(ys[i]):
                continue
            if not proj_eq(xs[i], ys[i], tol):
                return f"object differs (element {i})"
        return None
    if kind == "poly":
        if type(a) is not type(b):
            return f"class differs: {type(a).__name__} vs {type(b).__name__}"
        x, y = _arrs(a), _arrs(b)
        if x.shape != y.shape:
            return "shape differs"
        xs, ys = x.reshape(-1, x.shape[-1]), y.reshape(-1, y.shape[-1])
        return None if all(proj_eq(p, q, tol) for p, q in zip(xs, ys)) else "vertex differs"
    if kind in ("objs", "polys"):
        a, b = list(a), list(b)
        sub = "obj" if kind == "objs" else "poly"

        def dedupe(lst):
            out = []
            for x in lst:
                if not any(same_result(sub, x, y, max(tol, 1e-6)) is None for y in out):
                    out.append(x)
            return out

        if len(a) != len(b):
            a, b = dedupe(a), dedupe(b)  # a coincident pair may be reported once or twice
        if len(a) != len(b):
            return f"number of results differs: {len(a)} vs {len(b)}"
        rest = list(b)
        for x in a:
            k = next((i for i, y in enumerate(rest) if same_result(sub, x, y, max(tol, 1e-6)) is None), None)
            if k is None:
                return "list differs (as a multiset)"
            rest.pop(k)
        return None
    raise KeyError(kind)


def run(ctx, fn, *a):
    r, e = ctx.call(fn, *a)
    return e if e is not None else r


def enum_ops(tier, seed):
    for op in C.OPS:
        if op.c03:
            yield (op.name,)


@family("C03", "rescaled_arguments", enum_ops)
def case_ops(ctx, cfg):
    import geometer as G

    (name,) = cfg
    op = C.OP_BY_NAME[name]
    lams = list(C.LAMBDAS)
    complex_ok = name.split("(")[0] in ("join", "meet", "crossratio") or name in ("P==P", "L==L")
    affine_ops = ("P.normalized_array", "P+P", "P-P", "P*c")
    # thorough: four times as many base configurations per operation (evenly spread over the product of the pools)
    for ci, spec in enumerate(C.op_configs(op, 4 if ctx.tier == "thorough" else 1)):
        if name in affine_ops and any(k == "P2" and s[-1] == 0 for k, s in zip(op.kinds, spec)):
            ctx.skipped += 1  # a point at infinity acts as a direction vector there: its magnitude matters by definition (C19)
            continue
        base_args = [C.build(G, k, s) for k, s in zip(op.kinds, spec)]
        r0 = run(ctx, op.fn, G, *base_args)
        ctx.trace()
        if isinstance(r0, BaseException):
            ctx.tally("base-call-raises:" + type(r0).__name__)
        # the same objects given as integer arrays (an integer representative such as [1, 3, 2] of a fractional point)
        if all(isinstance(x, (int, np.integer)) for s_ in spec for x in np.ravel(np.array(s_, dtype=object))):
            iargs, e_ = ctx.call(lambda: [C.build(G, k, s_, dtype=np.int64) for k, s_ in zip(op.kinds, spec)])
            if e_ is None:
                ri = run(ctx, op.fn, G, *iargs)
                ctx.trace()
                ctx.state((name, ci, "int64"))
                why = same_result(op.res, r0, ri)
                if why:
                    ctx.fail(f"{name}:integer-dtype-representative", name, {"operation": name, "specs": spec, "dtype": "int64"}, r0 if not isinstance(r0, BaseException) else repr(r0), ri if not isinstance(ri, BaseException) else repr(ri), why)
                    return
        for pos, kind in enumerate(op.kinds):
            ncomp = C.ncomponents(kind)
            for comp in range(ncomp):
                ls = lams + (C.LAMBDAS_COMPLEX if complex_ok else [])
                if ctx.tier == "thorough" and kind in ("P2", "L2", "P3", "E3"):
                    ls = ls + C.LAMBDAS_THOROUGH
                elif ctx.tier == "thorough":
                    ls = ls + C.LAMBDAS_THOROUGH[:4]
                for lam in ls:
                    args = list(base_args)
                    args[pos] = C.build(G, kind, spec[pos], scale=(comp, lam))
                    ctx.state((name, ci, pos, comp, str(lam)))
                    r1 = run(ctx, op.fn, G, *args)
                    ctx.trace()
                    why = same_result(op.res, r0, r1)
                    if why:
                        neg = "negative" if (not isinstance(lam, complex) and lam < 0) else "complex" if isinstance(lam, complex) else "positive"
                        extra = ""
                        if name == "Conic.from_tangent":
                            # one of the two valid conics is chosen; flag the sub-case in which an auxiliary point (meet of a
                            # line through two of the points with the tangent) lies at infinity
                            t_, a_, b_, c_, d_ = spec
                            par = any((q[0] * p[2] - p[0] * q[2]) * t_[0] + (q[1] * p[2] - p[1] * q[2]) * t_[1] == 0 for p, q in ((a_, c_), (b_, d_), (a_, b_), (c_, d_)))
                            extra = ":auxiliary-point-at-infinity" if par else ""
                        ctx.fail(f"{name}:arg{pos}:{neg}-factor{extra}", name, {"operation": name, "specs": spec, "rescaled_argument": pos, "component": comp, "factor": lam}, r0 if not isinstance(r0, BaseException) else repr(r0), r1 if not isinstance(r1, BaseException) else repr(r1), why)
                        return


# ---------------------------------------------------------------------------------------------------
# == of projective objects


def enum_eq(tier, seed):
    yield ("points2d",)
    yield ("lines2d",)
    yield ("points3d",)
    yield ("planes",)
    yield ("lines3d",)
    yield ("conics",)
    yield ("transformations",)
    yield ("collections",)


@family("C03", "projective_equality", enum_eq)
def case_eq(ctx, cfg):
    import geometer as G

    (kind,) = cfg
    lams = C.LAMBDAS + C.LAMBDAS_COMPLEX + [5, -0.25]
    if kind in ("points2d", "lines2d", "points3d", "planes"):
        n = 3 if kind.endswith("2d") else 4
        cls = {"points2d": G.Point, "points3d": G.Point, "lines2d": G.Line, "planes": G.Plane}[kind]
        vs = lattice(n, 1)
        objs = [cls(np.array(v, dtype=float)) for v in vs]
        for i, v in enumerate(vs):
            for lam in lams:
                w = cls(np.array(v, dtype=complex if isinstance(lam, complex) else float) * lam)
                ctx.state((kind, v, str(lam)))
                r1, e1 = ctx.call(lambda: objs[i] == w)
                r2, e2 = ctx.call(lambda: w == objs[i])
                ctx.trace(2)
                if e1 or e2 or r1 is not True or r2 is not True:
                    ctx.fail(f"eq:{kind}:multiple-not-equal", "==", {"v": v, "factor": lam}, True, e1 or e2 or [r1, r2])
                    return
            for j, u in enumerate(vs):
                want = X.irank([list(v), list(u)]) == 1
                r, e = ctx.call(lambda: objs[i] == objs[j])
                ctx.trace()
                if e is not None or bool(r) != want:
                    ctx.fail(f"eq:{kind}:{'equal' if want else 'distinct'}", "==", {"a": v, "b": u}, want, e if e is not None else bool(r))
                    return
                r2, e = ctx.call(lambda: objs[j] == objs[i])
                if e is not None or bool(r2) != bool(r):
                    ctx.fail(f"eq:{kind}:not-symmetric", "==", {"a": v, "b": u}, bool(r), e if e is not None else bool(r2))
                    return
    elif kind == "lines3d":
        specs = C.POOL["L3"] + [((0, 0, 0, 1), (1, 0, 0, 0)), ((0, 1, 0, 1), (1, 0, 0, 0))]
        ls = [C.build(G, "L3", s) for s in specs]
        for i, j in itertools.product(range(len(ls)), repeat=2):
            r, e = ctx.call(lambda: ls[i] == ls[j])
            ctx.trace()
            ctx.state((kind, i, j))
            if e is not None or bool(r) != (i == j):
                ctx.fail("eq:lines3d", "==", {"a": specs[i], "b": specs[j]}, i == j, e if e is not None else bool(r))
                return
        for i, s in enumerate(specs):
            # the same line through two other points of it, and rescaled
            p, q = np.array(s[0], dtype=float), np.array(s[1], dtype=float)
            other = G.Line(G.Point(2 * p - q), G.Point(p + 3 * q))
            for lam in lams[:7]:
                o2 = other.copy()
                o2.array = other.array * lam
                r, e = ctx.call(lambda: ls[i] == o2)
                ctx.trace()
                if e is not None or r is not True:
                    ctx.fail("eq:lines3d:same-line-other-points", "==", {"line": s, "factor": lam}, True, e if e is not None else r)
                    return
    elif kind in ("conics", "transformations"):
        pool = C.POOL["CON"] + C.POOL["DCON"] if kind == "conics" else C.POOL["T2"]
        cls = G.Conic if kind == "conics" else G.Transformation
        objs = [cls(np.array(m, dtype=float)) for m in pool]
        for i, j in itertools.product(range(len(objs)), repeat=2):
            r, e = ctx.call(lambda: objs[i] == objs[j])
            ctx.trace()
            ctx.state((kind, i, j))
            if e is not None or bool(r) != (i == j):
                ctx.fail(f"eq:{kind}", "==", {"a": pool[i], "b": pool[j]}, i == j, e if e is not None else bool(r))
                return
        for i, m in enumerate(pool):
            for lam in lams:
                w = cls(np.array(m, dtype=complex if isinstance(lam, complex) else float) * lam)
                r, e = ctx.call(lambda: objs[i] == w)
                ctx.trace()
                if e is not None or r is not True:
                    ctx.fail(f"eq:{kind}:multiple-not-equal", "==", {"m": m, "factor": lam}, True, e if e is not None else r)
                    return
    else:
        # collections: equal iff every element is a multiple (different factors per element)
        vs = lattice(3, 1)[:8]
        A = G.PointCollection(np.array(vs, dtype=float))
        B = G.PointCollection(np.array([[x * (1, -2, 3, 0.5)[i % 4] for x in v] for i, v in enumerate(vs)], dtype=float))
        r, e = ctx.call(lambda: A == B)
        ctx.trace()
        ctx.state((kind, 0))
        if e is not None or r is not True:
            ctx.fail("eq:collection:multiples", "==", {"points": vs}, True, e if e is not None else r)
            return
        arr = B.array.copy()
        arr[3] = [1, 2, 5]
        r, e = ctx.call(lambda: A == G.PointCollection(arr))
        if e is not None or r is not False:
            ctx.fail("eq:collection:one-element-differs", "==", {"points": vs}, False, e if e is not None else r)


# ---------------------------------------------------------------------------------------------------
# polygon membership with mixed representatives (all sign patterns of the vertex weights)


def enum_poly(tier, seed):
    from checks import shapeslib as SL

    for name in ("square", "triangle_ccw", "dart", "L"):
        for emb in ("2d", "z=1", "generic"):
            yield (name, emb)


@family("C03", "polygon_vertex_weights", enum_poly)
def case_poly(ctx, cfg):
    import geometer as G
    from checks import shapeslib as SL

    name, emb = cfg
    poly = SL.POLYGONS[name]
    n = len(poly)
    V = poly if emb == "2d" else [SL.embed(emb, *v) for v in poly]
    qs = SL.half_grid(poly)[::2]
    Q = [q if emb == "2d" else SL.embed(emb, *q) for q in qs]
    QC = G.PointCollection(np.array([[float(x) for x in q] + [1.0] for q in Q]))
    base = G.Polygon(*[G.Point(np.array([float(x) for x in v] + [1.0])) for v in V])
    r0, e0 = ctx.call(base.contains, QC)
    if e0 is not None:
        ctx.fail("polygon-weights:base-raises", "contains", {"polygon": name, "embedding": emb}, "boolean array", e0)
        return
    weights = [1, -1, 2, -3, 0.5]
    patterns = list(itertools.product(weights[:2], repeat=n)) if n <= 4 else []
    patterns += [tuple(weights[(i + k) % 5] for i in range(n)) for k in range(5)]
    for w in patterns:
        ctx.state((name, emb, w))
        Pg = G.Polygon(*[G.Point(np.array([float(x) for x in v] + [1.0]) * wi) for v, wi in zip(V, w)])
        for tag, fn in (("contains", lambda: Pg.contains(QC)), ("area", lambda: Pg.area), ("contains-single", lambda: np.array([bool(Pg.contains(G.Point(QC.array[i]))) for i in range(0, len(Q), 7)]))):
            r, e = ctx.call(fn)
            ctx.trace()
            want = r0 if tag == "contains" else base.area if tag == "area" else np.asarray(r0)[::7]
            ok = e is None and (np.array_equal(np.asarray(r), np.asarray(want)) if tag != "area" else num_eq(r, want, 1e-9, 1e-9))
            if not ok:
                sign = "mixed-signs" if any(x < 0 for x in w) and any(x > 0 for x in w) else "all-negative" if all(x < 0 for x in w) else "positive"
                ctx.fail(f"polygon-weights:{tag}:{'2d' if emb == '2d' else '3d'}:{sign}", tag, {"polygon": name, "embedding": emb, "vertex_weights": w}, want, e if e is not None else r)
                return
