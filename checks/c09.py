"""C09: dist and angle equal the Cartesian distance and angle (all lattice pairs/triples, every kind combination)."""
from __future__ import annotations

import itertools
import math
from fractions import Fraction as F

import numpy as np

from checks import xform as XF
from mc import exact as X
from mc.compare import angle_eq_mod_pi, num_eq
from mc.core import family, lattice


def aff(n, k):
    return list(itertools.product(range(-k, k + 1), repeat=n))


def norm(v):
    return math.sqrt(sum(float(x) * float(x) for x in v))


def close(a, b, tol=1e-9):
    return num_eq(a, b, tol, tol)


REPS = [1, 2, -1, -3]  # homogeneous representatives used for the points


def P(G, v, w=1, dtype=float):
    return G.Point(np.array([w * x for x in v] + [w], dtype=dtype))


# ---------------------------------------------------------------------------------------------------


def enum_pp(tier, seed):
    for dim, k in ((2, 2), (3, 1)):
        for p in aff(dim, k):
            yield (dim, p)


@family("C09", "dist_point_point", enum_pp)
def case_pp(ctx, cfg):
    import geometer as G

    dim, p = cfg
    pts = aff(dim, 2 if dim == 2 else 1)
    inputs0 = {"dim": dim, "p": p}
    # scalar calls against every other lattice point, several representatives
    for qi, q in enumerate(pts):
        want = norm([a - b for a, b in zip(p, q)])
        w1, w2 = REPS[qi % 4], REPS[(qi // 4) % 4]
        a, b = P(G, p, w1), P(G, q, w2, np.int64 if qi % 3 == 0 else float)
        ctx.state((dim, p, q))
        for x, y, tag in ((a, b, "pq"), (b, a, "qp")):
            d, e = ctx.call(G.dist, x, y)
            ctx.trace()
            if e is not None or not close(d, want):
                ctx.fail(f"dist:point-point:{dim}d", "dist", {**inputs0, "q": q, "weights": [w1, w2], "order": tag}, want, e if e is not None else d)
                return
    # close but distinct points (3e-5 .. 3e-3 apart, dyadic offsets: exactly representable, far from the 1e-8 tolerance)
    near_offsets = [((2.0**-15,) + (0.0,) * (dim - 1), 2.0**-15), ((3 * 2.0**-16, 4 * 2.0**-16) + (0.0,) * (dim - 2), 5 * 2.0**-16), ((0.0,) * (dim - 1) + (-(2.0**-9),), 2.0**-9), ((2.0**-12,) * dim, 2.0**-12 * math.sqrt(dim))]
    for k, (off, want) in enumerate(near_offsets):
        qn = [a + b for a, b in zip(p, off)]
        for w in (1.0, -2.0):
            a, b = P(G, p), G.Point(np.array(qn + [1.0]) * w)
            for x, y, tag in ((a, b, "pq"), (b, a, "qp")):
                d, e = ctx.call(G.dist, x, y)
                ctx.trace()
                ctx.state((dim, p, "near", k, w, tag))
                if e is not None or not close(d, want, 1e-11):
                    ctx.fail(f"dist:point-point:{dim}d:close-points", "dist", {**inputs0, "q": qn, "weight": w, "order": tag}, want, e if e is not None else d)
                    return
    # points with coordinates of size 30 .. 50 whose RELATIVE difference is below 1e-5 (absolute 1.2e-4 .. 4e-4)
    if tuple(p) == tuple(pts[0]):
        big = (30.0, 40.0) if dim == 2 else (30.0, 40.0, 50.0)
        for off, want in (((2.0**-13,) + (0.0,) * (dim - 1), 2.0**-13), ((3 * 2.0**-13, 4 * 2.0**-13) + (0.0,) * (dim - 2), 5 * 2.0**-13), ((0.0,) * (dim - 1) + (2.0**-12,), 2.0**-12)):
            a, b = G.Point(*big), G.Point(*[x + y for x, y in zip(big, off)])
            for x, y, tag in ((a, b, "pq"), (b, a, "qp")):
                d, e = ctx.call(G.dist, x, y)
                ctx.trace()
                ctx.state((dim, "big-close", off, tag))
                if e is not None or not close(d, want, 1e-10):
                    ctx.fail(f"dist:point-point:{dim}d:close-points-with-large-coordinates", "dist", {"dim": dim, "p": big, "offset": off, "order": tag}, want, e if e is not None else d)
                    return
    # collection path: p single against all q
    Q = G.PointCollection(np.array([list(q) + [1] for q in pts], dtype=float))
    d, e = ctx.call(G.dist, P(G, p), Q)
    ctx.trace(len(pts))
    want = np.array([norm([a - b for a, b in zip(p, q)]) for q in pts])
    if e is not None or np.shape(d) != want.shape or not np.allclose(d, want, atol=1e-9):
        ctx.fail(f"dist:point-pointcollection:{dim}d", "dist", inputs0, want, e if e is not None else d)
        return
    # exactly one point at infinity
    for v in lattice(dim, 1)[:8]:
        inf = G.Point(np.array(list(v) + [0], dtype=float))
        for x, y in ((P(G, p), inf), (inf, P(G, p, -2))):
            d, e = ctx.call(G.dist, x, y)
            ctx.trace()
            if e is not None or not (np.isinf(d) and d > 0):
                ctx.fail("dist:point-at-infinity", "dist", {**inputs0, "direction": v}, "inf", e if e is not None else d)
                return


# ---------------------------------------------------------------------------------------------------


# nearly (1e-3 .. 1e-4 rad) but not exactly axis-parallel / diagonal lines and planes with exact integer coordinates
NEAR_LINES2 = [(1000, 1, 0), (1000, 1, -500), (1, 1000, 3), (1000, -1, 2), (1000, 999, 1), (-999, 1000, 0), (10000, 1, 7)]
NEAR_PLANES = [(1000, 1, 0, 0), (1000, 1, 0, -300), (1, 0, 1000, 2), (0, 1000, -1, 1), (1000, 999, 1, 0), (1, 1, 1000, -5)]


def enum_ph(tier, seed):
    for h in lattice(3, 2):
        if any(h[:2]):
            yield (2, h)
    for h in lattice(4, 1):
        if any(h[:3]):
            yield (3, h)
    for h in NEAR_LINES2:
        yield (2, h)
    for h in NEAR_PLANES:
        yield (3, h)


@family("C09", "dist_point_hyperplane", enum_ph)
def case_ph(ctx, cfg):
    import geometer as G

    dim, h = cfg
    H = (G.Line if dim == 2 else G.Plane)(np.array(h, dtype=float))
    pts = aff(dim, 2 if dim == 2 else 1)
    nn = norm(h[:-1])
    for qi, p in enumerate(pts):
        val = sum(a * b for a, b in zip(h, list(p) + [1]))
        want = abs(val) / nn
        pt = P(G, p, REPS[qi % 4])
        ctx.state((dim, h, p))
        ctx.tally("incident" if val == 0 else "not-incident")
        for x, y, tag in ((pt, H, "point,hyperplane"), (H, pt, "hyperplane,point")):
            d, e = ctx.call(G.dist, x, y)
            ctx.trace()
            ok = e is None and close(d, want, 1e-8) and ((abs(float(np.real(d))) < 1e-9) == (val == 0))
            if not ok:
                same = tuple(h) == tuple(list(p) + [1]) or X.irank([list(h), list(p) + [1]]) == 1
                ctx.fail(f"dist:point-hyperplane:{dim}d" + (":equal-coordinate-vectors" if same else ""), "dist", {"dim": dim, "hyperplane": h, "p": p, "order": tag}, want, e if e is not None else d)
                return
    # points just off the hyperplane (3e-5 .. 2e-3 away): a point of the hyperplane moved by a dyadic step along one axis
    for p in pts:
        if sum(a * b for a, b in zip(h, list(p) + [1])) != 0:
            continue
        for k in range(dim):
            if h[k] == 0:
                continue
            for step in (2.0**-15, -(2.0**-9)):
                q = [float(x) for x in p]
                q[k] += step
                want = abs(h[k] * step) / nn
                if want < 1e-6:
                    ctx.undecided += 1  # within a factor 100 of the library's absolute tolerance: "incident" is a legitimate answer (R4)
                    continue
                d, e = ctx.call(G.dist, H, G.Point(np.array(q + [1.0])))
                ctx.trace()
                ctx.state((dim, h, p, "near", k, step))
                if e is not None or not close(d, want, 1e-11):
                    ctx.fail(f"dist:point-hyperplane:{dim}d:close-to-hyperplane", "dist", {"dim": dim, "hyperplane": h, "p": q}, want, e if e is not None else d)
                    return
        break
    # collections
    PC = G.PointCollection(np.array([list(q) + [1] for q in pts], dtype=float))
    d, e = ctx.call(G.dist, H, PC)
    ctx.trace(len(pts))
    want = np.array([abs(sum(a * b for a, b in zip(h, list(p) + [1]))) / nn for p in pts])
    if e is not None or np.shape(d) != want.shape or not np.allclose(d, want, atol=1e-8):
        ctx.fail(f"dist:hyperplane-pointcollection:{dim}d", "dist", {"dim": dim, "hyperplane": h}, want, e if e is not None else d)


# ---------------------------------------------------------------------------------------------------


def enum_pl3(tier, seed):
    pts = aff(3, 1)
    dirs = [v for v in lattice(3, 1) if next(x for x in v if x) > 0]
    for u in pts[:: (1 if tier == "thorough" else 3)]:
        for w in dirs:
            yield (u, w)


@family("C09", "dist_point_line3d_and_parallel", enum_pl3)
def case_pl3(ctx, cfg):
    import geometer as G

    u, w = cfg
    L = G.Line(P(G, u), G.Point(np.array(list(w) + [0], dtype=float)))
    nw = norm(w)
    for p in aff(3, 1):
        d0 = [a - b for a, b in zip(p, u)]
        cr = [d0[1] * w[2] - d0[2] * w[1], d0[2] * w[0] - d0[0] * w[2], d0[0] * w[1] - d0[1] * w[0]]
        want = norm(cr) / nw
        ctx.state((u, w, p))
        ctx.tally("on-line" if not any(cr) else "off-line")
        for x, y, tag in ((P(G, p, 2), L, "point,line"), (L, P(G, p), "line,point")):
            d, e = ctx.call(G.dist, x, y)
            ctx.trace()
            if e is not None or not close(d, want, 1e-7) or ((abs(float(np.real(d))) < 1e-8) != (not any(cr))):
                ctx.fail("dist:point-line:3d", "dist", {"line_point": u, "line_direction": w, "p": p, "order": tag}, want, e if e is not None else d)
                return
    # planes parallel to the line: normal n with n.w = 0; distance = |n.u + c| / |n|
    for n_ in lattice(3, 1):
        if sum(a * b for a, b in zip(n_, w)) != 0:
            continue
        for c in (-2, 0, 1):
            val = sum(a * b for a, b in zip(n_, u)) + c
            want = abs(val) / norm(n_)
            E = G.Plane(np.array(list(n_) + [c], dtype=float))
            for x, y, tag in ((E, L, "plane,line"), (L, E, "line,plane")):
                d, e = ctx.call(G.dist, x, y)
                ctx.trace()
                if e is not None or not close(d, want, 1e-7):
                    ctx.fail(f"dist:plane-parallel-line:{type(e).__name__ if e is not None else 'value'}", "dist", {"plane": list(n_) + [c], "line_point": u, "line_direction": w, "order": tag}, want, e if e is not None else d)
                    return


def enum_planes(tier, seed):
    for n_ in lattice(3, 1):
        yield (n_,)


@family("C09", "dist_parallel_planes", enum_planes)
def case_planes(ctx, cfg):
    import geometer as G

    (n_,) = cfg
    for c1, c2, s in itertools.product((-2, 0, 1, 3), (-1, 0, 2), (1, 2, -1)):
        if c1 * s == c2 and s == 1:
            pass
        # planes n.x + c1 = 0 and s*(n.x) + s*c2' = 0
        E1 = G.Plane(np.array(list(n_) + [c1], dtype=float))
        E2 = G.Plane(np.array([s * x for x in n_] + [s * c2], dtype=float))
        want = abs(c1 - c2) / norm(n_)
        ctx.state((n_, c1, c2, s))
        ctx.tally("equal-planes" if c1 == c2 else "distinct-parallel-planes")
        d, e = ctx.call(G.dist, E1, E2)
        ctx.trace()
        if e is not None or not close(d, want, 1e-7):
            ctx.fail(f"dist:plane-plane:{type(e).__name__ if e is not None else 'value'}", "dist", {"normal": n_, "c1": c1, "c2": c2, "scale": s}, want, e if e is not None else d)
            return
    # the same pairs as collections: (k,) x (k,), single x (k,), (k,) x single, and a (2, k/2) grid
    combos = list(itertools.product((-2, 0, 1, 3), (-1, 0, 2), (1, 2, -1)))
    A1 = np.array([list(n_) + [c1] for c1, c2, s in combos], dtype=float)
    A2 = np.array([[s * x for x in n_] + [s * c2] for c1, c2, s in combos], dtype=float)
    wants = np.array([abs(c1 - c2) / norm(n_) for c1, c2, s in combos])
    forms = (
        ("coll-coll", lambda: G.dist(G.PlaneCollection(A1), G.PlaneCollection(A2)), wants),
        ("single-coll", lambda: G.dist(G.Plane(A1[0]), G.PlaneCollection(A2)), np.array([abs(combos[0][0] - c2) / norm(n_) for c1, c2, s in combos])),
        ("coll-single", lambda: G.dist(G.PlaneCollection(A1), G.Plane(A2[1])), np.array([abs(c1 - combos[1][1]) / norm(n_) for c1, c2, s in combos])),
        ("grid-grid", lambda: G.dist(G.PlaneCollection(A1.reshape(2, -1, 4)), G.PlaneCollection(A2.reshape(2, -1, 4))), wants.reshape(2, -1)),
    )
    for name, fn, w in forms:
        d, e = ctx.call(fn)
        ctx.trace(len(combos))
        if e is not None or np.shape(d) != w.shape or not np.allclose(d, w, atol=1e-7):
            ctx.fail(f"dist:plane-plane:{name}:{type(e).__name__ if e is not None else 'shape' if np.shape(d) != w.shape else 'value'}", "dist", {"normal": n_, "form": name}, w, e if e is not None else d)
            return


# ---------------------------------------------------------------------------------------------------
# polytopes


def seg_dist(p, a, b):
    ab = [y - x for x, y in zip(a, b)]
    ap = [y - x for x, y in zip(a, p)]
    den = sum(x * x for x in ab)
    t = F(sum(x * y for x, y in zip(ab, ap)), den)
    t = max(F(0), min(F(1), t))
    foot = [F(x) + t * y for x, y in zip(a, ab)]
    return norm([F(x) - y for x, y in zip(p, foot)])


POLYS2 = {
    "square": [(0, 0), (2, 0), (2, 2), (0, 2)],
    "triangle": [(0, 0), (3, 0), (0, 2)],
    "dart": [(0, 0), (2, 1), (4, 0), (2, 3)],
    "L": [(0, 0), (3, 0), (3, 1), (1, 1), (1, 3), (0, 3)],
}


def pip(poly, p):
    """Exact point-in-polygon: 'boundary' / 'inside' / 'outside' (integer crossing number)."""
    n = len(poly)
    x, y = p
    inside = False
    for i in range(n):
        (x1, y1), (x2, y2) = poly[i], poly[(i + 1) % n]
        cr = (x2 - x1) * (y - y1) - (y2 - y1) * (x - x1)
        if cr == 0 and min(x1, x2) <= x <= max(x1, x2) and min(y1, y2) <= y <= max(y1, y2):
            return "boundary"
        if (y1 > y) != (y2 > y):
            # x-coordinate of the crossing compared exactly
            lhs = (x - x1) * (y2 - y1)
            rhs = (x2 - x1) * (y - y1)
            if (lhs < rhs) == (y2 > y1):
                inside = not inside
    return "inside" if inside else "outside"


def enum_poly(tier, seed):
    for name in POLYS2:
        for emb in ("2d", "z=1", "x=2", "skew"):
            yield (name, emb)
    yield ("segment", "2d")
    yield ("segment", "3d")
    yield ("cuboid", "3d")
    yield ("collections", "2d")
    yield ("collections", "z=1")
    yield ("collections", "skew")


EMB = {
    "z=1": lambda x, y: (x, y, 1),
    "x=2": lambda x, y: (2, x, y),
    "skew": lambda x, y: (x, y, x + 2 * y - 1),  # plane z = x + 2y - 1, normal (1, 2, -1)
}
EMB_N = {"z=1": (0, 0, 1), "x=2": (1, 0, 0), "skew": (1, 2, -1)}


@family("C09", "dist_polytopes", enum_poly)
def case_poly(ctx, cfg):
    import geometer as G

    name, emb = cfg
    half = [F(k, 2) for k in range(-2, 9)]
    if name == "segment":
        dim = 2 if emb == "2d" else 3
        ends = [((0, 0), (3, 1)), ((1, 1), (1, 4)), ((-1, 2), (2, -1))] if dim == 2 else [((0, 0, 0), (2, 1, 2)), ((1, 1, 1), (1, 1, -2))]
        for a, b in ends:
            S = G.Segment(P(G, a), P(G, b, -2))
            qs = aff(dim, 3) if dim == 2 else aff(3, 2)
            for q in qs:
                want = seg_dist(q, a, b)
                ctx.state((name, a, b, q))
                for x, y, tag in ((S, P(G, q), "segment,point"), (P(G, q), S, "point,segment")):
                    d, e = ctx.call(G.dist, x, y)
                    ctx.trace()
                    if e is not None or not close(d, want, 1e-7):
                        ctx.fail(f"dist:segment:{dim}d", "dist", {"segment": [a, b], "q": q, "order": tag}, want, e if e is not None else d)
                        return
            QC = G.PointCollection(np.array([list(q) + [1] for q in qs], dtype=float))
            d, e = ctx.call(G.dist, S, QC)
            want = np.array([seg_dist(q, a, b) for q in qs])
            if e is not None or not np.allclose(d, want, atol=1e-7):
                ctx.fail(f"dist:segment-pointcollection:{dim}d", "dist", {"segment": [a, b]}, want, e if e is not None else d)
                return
        return
    if name == "cuboid":
        C = G.Cuboid(G.Point(0, 0, 0), G.Point(2, 0, 0), G.Point(0, 1, 0), G.Point(0, 0, 3))
        for q in aff(3, 2) + [(3, 2, 4), (1, 3, 1), (4, 0, 0)]:
            dx = [max(0 - q[i], 0, q[i] - m) for i, m in enumerate((2, 1, 3))]
            outside = any(dx)
            if not outside and not any(q[i] in (0, m) for i, m in enumerate((2, 1, 3))):
                ctx.skipped += 1  # strictly inside: solid vs surface reading is not fixed by the statement
                continue
            want = norm(dx)
            ctx.state((name, q))
            d, e = ctx.call(G.dist, P(G, q), C)
            ctx.trace()
            if e is not None or not close(d, want, 1e-7):
                ctx.fail("dist:cuboid", "dist", {"q": q}, want, e if e is not None else d)
                return
        return
    if name == "collections":
        # PolygonCollections with fewer / as many / more members than vertices; every member measured to its own edges
        quads = [POLYS2["square"], POLYS2["dart"], [(1, 1), (5, 1), (5, 2), (1, 2)], [(-2, -2), (-1, -2), (-1, 3), (-2, 3)], [(0, 0), (1, 0), (1, 1), (0, 1)]]
        lift = (lambda x, y: (x, y)) if emb == "2d" else EMB[emb]
        qs = [q for q in itertools.product(range(-3, 7), repeat=2)]
        for k in (1, 2, 4, 5):
            polys = quads[:k]
            PC = G.PolygonCollection([G.Polygon(*[P(G, lift(*v), 1) for v in poly]) for poly in polys])
            for phase in ("fresh", "after-area-was-read"):
              if phase != "fresh":
                  _ = ctx.call(lambda: (PC.area, PC.edges))
              for q in qs[:: (1 if phase == "fresh" else 3)]:
                  if emb == "2d" and any(pip(poly, q) == "inside" for poly in polys):
                      ctx.skipped += 1
                      continue
                  if emb == "2d":
                      want = np.array([float(min(seg_dist(q, poly[i], poly[(i + 1) % 4]) for i in range(4))) for poly in polys])
                  else:
                      # query points in the plane of the polygons: distance 0 inside and on the boundary
                      want = np.array([0.0 if pip(poly, q) != "outside" else float(min(seg_dist(lift(*q), lift(*poly[i]), lift(*poly[(i + 1) % 4])) for i in range(4))) for poly in polys])
                  ctx.state((name, emb, k, q))
                  qq = P(G, lift(*q), 1)
                  for x, y, tag in ((PC, qq, "collection,point"), (qq, PC, "point,collection")):
                      d, e = ctx.call(G.dist, x, y)
                      ctx.trace(k)
                      if e is not None or np.shape(d) != (k,) or not np.allclose(d, want, atol=1e-7):
                          ctx.fail(f"dist:polygoncollection:{emb if emb == '2d' else '3d'}:{phase}:{type(e).__name__ if e is not None else 'value'}", "dist", {"polygons": polys, "embedding": emb, "q": q, "order": tag, "phase": phase}, want, e if e is not None else d)
                          return
        return
    poly = POLYS2[name]
    n = len(poly)
    for rot in range(n if ctx.tier == "thorough" else 2):
        for rev in (False, True):
            vs = poly[rot:] + poly[:rot]
            if rev:
                vs = vs[::-1]
            if emb == "2d":
                Pg = G.Polygon(*[P(G, v, 1) for i, v in enumerate(vs)])
                for q in itertools.product(half, repeat=2):
                    where = pip(poly, q)
                    if where == "inside":
                        ctx.skipped += 1  # filled region vs boundary curve: not fixed by the statement for 2D
                        continue
                    want = min(seg_dist(q, vs[i], vs[(i + 1) % n]) for i in range(n))
                    ctx.state((name, emb, rot, rev, q))
                    ctx.tally(where)
                    qq = G.Point(np.array([float(q[0]), float(q[1]), 1.0]))
                    d, e = ctx.call(G.dist, Pg, qq)
                    ctx.trace()
                    if e is not None or not close(d, want, 1e-7) or ((abs(float(np.real(d))) < 1e-8) != (where == "boundary")):
                        ctx.fail("dist:polygon:2d", "dist", {"polygon": vs, "q": [str(x) for x in q]}, want, e if e is not None else d)
                        return
            else:
                f = EMB[emb]
                nrm = EMB_N[emb]
                V3 = [f(*v) for v in vs]
                Pg = G.Polygon(*[P(G, v, 1) for i, v in enumerate(V3)])
                for q2 in itertools.product(half[::2], repeat=2):
                    for hgt in (0, 1, -2):
                        base = f(*q2)
                        q = [F(b) + hgt * c for b, c in zip(base, nrm)]
                        where = pip(poly, q2)
                        if where != "outside":
                            want = abs(hgt) * norm(nrm)
                        else:
                            want = min(seg_dist(q, V3[i], V3[(i + 1) % n]) for i in range(n))
                        ctx.state((name, emb, rot, rev, tuple(q2), hgt))
                        ctx.tally(f"foot-{where}:{'in-plane' if hgt == 0 else 'off-plane'}")
                        qq = G.Point(np.array([float(x) for x in q] + [1.0]))
                        d, e = ctx.call(G.dist, qq, Pg)
                        ctx.trace()
                        if e is not None or not close(d, want, 1e-7):
                            ctx.fail(f"dist:polygon:3d:{emb}", "dist", {"polygon": V3, "q": [str(x) for x in q]}, want, e if e is not None else d)
                            return


# ---------------------------------------------------------------------------------------------------
# angles


def ang2(v):
    return math.atan2(v[1], v[0])


def enum_angle(tier, seed):
    for a in aff(2, 2 if tier == "thorough" else 1):
        yield ("points2d", a)
    for a in aff(3, 1)[:: (1 if tier == "thorough" else 2)]:
        yield ("points3d", a)
    for h in lattice(3, 1):
        if any(h[:2]):
            yield ("lines2d", h)
    for n_ in lattice(3, 1):
        yield ("planes", n_)
    for u in lattice(3, 1)[:: (1 if tier == "thorough" else 2)]:
        yield ("lines3d", u)
    for h in NEAR_LINES2[:5]:
        yield ("lines2d", h)
    for h in NEAR_PLANES[:4]:
        yield ("planes", h[:3])


@family("C09", "angle", enum_angle)
def case_angle(ctx, cfg):
    import geometer as G

    kind, a = cfg
    if kind == "points2d":
        pts = [p for p in aff(2, 2) if p != tuple(a)]
        A = P(G, a, -2)
        for b, c in itertools.product(pts, repeat=2):
            want = ang2([b[0] - a[0], b[1] - a[1]]) - ang2([c[0] - a[0], c[1] - a[1]])
            ctx.state((kind, a, b, c))
            r, e = ctx.call(G.angle, A, P(G, b, 3), P(G, c))
            ctx.trace()
            if e is not None or not angle_eq_mod_pi(r, want, 1e-9):
                ctx.fail("angle:points:2d", "angle", {"a": a, "b": b, "c": c}, want, e if e is not None else r)
                return
            r2, e2 = ctx.call(G.angle, A, P(G, c), P(G, b, 3))
            if e2 is not None or not angle_eq_mod_pi(r2, -want, 1e-9) or not angle_eq_mod_pi(r2, -float(np.real(r)), 1e-9):
                ctx.fail("angle:points:2d:antisymmetry", "angle", {"a": a, "b": c, "c": b}, -want, e2 if e2 is not None else r2)
                return
        # collection path
        B = G.PointCollection(np.array([list(b) + [1] for b, c in itertools.product(pts, repeat=2)], dtype=float))
        C = G.PointCollection(np.array([list(c) + [1] for b, c in itertools.product(pts, repeat=2)], dtype=float))
        r, e = ctx.call(G.angle, A, B, C)
        want = np.array([ang2([b[0] - a[0], b[1] - a[1]]) - ang2([c[0] - a[0], c[1] - a[1]]) for b, c in itertools.product(pts, repeat=2)])
        if e is not None or np.shape(r) != want.shape or not all(angle_eq_mod_pi(x, y, 1e-9) for x, y in zip(r, want)):
            ctx.fail("angle:points:2d:collection", "angle", {"a": a}, "elementwise angles", e if e is not None else "mismatch")
        return
    if kind == "points3d":
        pts = [p for p in aff(3, 1) if p != tuple(a)]
        A = P(G, a)
        for b, c in itertools.product(pts, repeat=2):
            u = [x - y for x, y in zip(b, a)]
            v = [x - y for x, y in zip(c, a)]
            cr = [u[1] * v[2] - u[2] * v[1], u[2] * v[0] - u[0] * v[2], u[0] * v[1] - u[1] * v[0]]
            collinear = not any(cr)
            cosw = sum(x * y for x, y in zip(u, v)) / (norm(u) * norm(v))
            ctx.state((kind, a, b, c))
            ctx.tally("collinear" if collinear else "general")
            r, e = ctx.call(G.angle, A, P(G, b, 2), P(G, c))
            ctx.trace()
            if collinear:
                # angle 0 (mod pi); the library documents no exception for this case
                if e is not None or not angle_eq_mod_pi(r, 0.0, 1e-7):
                    ctx.fail(f"angle:points:3d:collinear:{type(e).__name__ if e is not None else 'value'}", "angle", {"a": a, "b": b, "c": c}, 0.0, e if e is not None else r)
                    return
                continue
            if e is not None or abs(math.cos(float(np.real(r))) ** 2 - cosw**2) > 1e-9 or abs(np.imag(r)) > 1e-9:
                ctx.fail("angle:points:3d", "angle", {"a": a, "b": b, "c": c}, math.acos(max(-1, min(1, cosw))), e if e is not None else r)
                return
        return
    if kind == "lines2d":
        l = G.Line(np.array(a, dtype=float))
        for m_ in list(lattice(3, 1)) + NEAR_LINES2:
            if not any(m_[:2]) or X.irank([list(a), list(m_)]) < 2:
                continue
            m = G.Line(np.array(m_, dtype=float) * -2)
            # direction of line (a,b,c) is (b,-a)
            want = ang2([a[1], -a[0]]) - ang2([m_[1], -m_[0]])
            ctx.state((kind, a, m_))
            r, e = ctx.call(G.angle, l, m)
            ctx.trace()
            parallel = a[0] * m_[1] - a[1] * m_[0] == 0
            if e is not None or not angle_eq_mod_pi(r, want, 1e-9):
                ctx.fail("angle:lines:2d" + (":parallel" if parallel else ""), "angle", {"l": a, "m": m_}, want, e if e is not None else r)
                return
            # line and a direction (point at infinity): angle between l and the line through the origin with that direction
            dpt = G.Point(np.array([m_[1], -m_[0], 0], dtype=float))
            l0 = G.Line(np.array([a[0], a[1], 0], dtype=float))
            r2, e2 = ctx.call(G.angle, l0, dpt)
            if e2 is not None or not angle_eq_mod_pi(r2, want, 1e-9):
                ctx.fail("angle:line-direction:2d", "angle", {"l": [a[0], a[1], 0], "direction": [m_[1], -m_[0], 0]}, want, e2 if e2 is not None else r2)
                return
        return
    if kind == "planes":
        for m_ in list(lattice(3, 1)) + [h[:3] for h in NEAR_PLANES]:
            if X.irank([list(a), list(m_)]) < 2:
                continue
            for c1, c2 in ((0, 0), (1, -2)):
                E1 = G.Plane(np.array(list(a) + [c1], dtype=float))
                E2 = G.Plane(np.array(list(m_) + [c2], dtype=float) * 2)
                cosw = sum(x * y for x, y in zip(a, m_)) / (norm(a) * norm(m_))
                ctx.state((kind, a, m_, c1))
                r, e = ctx.call(G.angle, E1, E2)
                ctx.trace()
                if e is not None or abs(np.imag(r)) > 1e-7 or abs(math.cos(float(np.real(r))) ** 2 - cosw**2) > 1e-7:
                    ctx.fail("angle:planes", "angle", {"e": list(a) + [c1], "f": list(m_) + [c2]}, math.acos(max(-1, min(1, cosw))), e if e is not None else r)
                    return
        return
    if kind == "lines3d":
        # two concurrent lines of 3-space through the lattice point o with directions a and v
        for o in [(0, 0, 0), (1, -1, 2)]:
            for v in lattice(3, 1):
                if X.irank([list(a), list(v)]) < 2:
                    continue
                l = G.Line(P(G, o), G.Point(np.array(list(a) + [0], dtype=float)))
                m = G.Line(P(G, o, 2), G.Point(np.array(list(v) + [0], dtype=float)))
                cosw = sum(x * y for x, y in zip(a, v)) / (norm(a) * norm(v))
                ctx.state((kind, a, v, o))
                r, e = ctx.call(G.angle, l, m)
                ctx.trace()
                if e is not None or abs(np.imag(r)) > 1e-7 or abs(math.cos(float(np.real(r))) ** 2 - cosw**2) > 1e-7:
                    ctx.fail("angle:lines:3d", "angle", {"o": o, "u": a, "v": v}, math.acos(max(-1, min(1, cosw))), e if e is not None else r)
                    return


# ---------------------------------------------------------------------------------------------------
# invariance under isometries


def enum_iso(tier, seed):
    yield (2,)
    yield (3,)


@family("C09", "isometry_invariance", enum_iso)
def case_iso(ctx, cfg):
    import geometer as G

    (dim,) = cfg
    isos = [G.Transformation(XF.mat_np(XF.gens(dim)[g])) for g in ("rot345", "trans", "swap")]
    isos.append(isos[0] * isos[1])
    pts = aff(dim, 1)
    for t in isos:
        PC = G.PointCollection(np.array([list(p) + [1] for p in pts], dtype=float))
        tP = t * PC
        for i, p in enumerate(pts):
            a, ta = P(G, p), G.Point(tP.array[i])
            d0, e0 = ctx.call(G.dist, a, PC)
            d1, e1 = ctx.call(G.dist, ta, tP)
            ctx.trace(2 * len(pts))
            ctx.state((dim, i, id(t) % 7))
            if e0 is not None or e1 is not None or not np.allclose(d0, d1, atol=1e-9):
                ctx.fail("dist:isometry-invariance", "dist", {"dim": dim, "p": p}, d0, e0 or e1 or d1)
                return
        if dim == 3:
            V3 = [(0, 0, 1), (2, 0, 1), (2, 2, 1), (0, 2, 1)]
            Pg = G.Polygon(*[P(G, v) for v in V3])
            Sg = G.Segment(P(G, (0, 0, 0)), P(G, (2, 1, 2)))
            qs = [(1, 1, 3), (3, 1, 1), (0, 0, 0), (1, 1, 1), (-1, 2, 4)]
            for q in qs:
                for obj, tag in ((Pg, "polygon"), (Sg, "segment")):
                    d_before, e0 = ctx.call(G.dist, P(G, q), obj)
                    _ = ctx.call(lambda: (obj.area, obj.centroid, obj.edges) if tag == "polygon" else (obj.length, obj.midpoint))
                    d_img, e1 = ctx.call(lambda: G.dist(t * P(G, q), t * obj))
                    d_after, e2 = ctx.call(G.dist, P(G, q), obj)
                    ctx.trace(3)
                    if e0 or e1 or e2 or not close(d_before, d_img, 1e-8) or not close(d_before, d_after, 1e-9):
                        ctx.fail(f"dist:isometry-invariance:{tag}", "dist", {"q": q, "object": tag}, d_before, e0 or e1 or e2 or [d_img, d_after])
                        return
        if dim == 2:
            others = [q for q in pts if q != (0, 0)]
            B = G.PointCollection(np.array([list(q) + [1] for q in others], dtype=float))
            A = P(G, (0, 0))
            r0, e0 = ctx.call(G.angle, A, B, G.Point(1, 0))
            r1, e1 = ctx.call(G.angle, t * A, t * B, t * G.Point(1, 0))
            if e0 is not None or e1 is not None or not all(angle_eq_mod_pi(x, y, 1e-9) for x, y in zip(r0, r1)):
                # reflections reverse the orientation: accept the negated angle for det < 0
                if e0 is None and e1 is None and np.linalg.det(t.array) < 0 and all(angle_eq_mod_pi(x, -y, 1e-9) for x, y in zip(r0, r1)):
                    continue
                ctx.fail("angle:isometry-invariance", "angle", {"dim": dim}, r0, e0 or e1 or r1)
                return
