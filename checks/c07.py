"""C07: transformations preserve incidence and commute with join and meet (every generator, not only isometries,
x every configuration of the lattice scopes)."""
from __future__ import annotations

import itertools
from fractions import Fraction as F
from math import lcm

import numpy as np

from checks import joinmeet as JM
from checks import xform as XF
from mc import exact as X
from mc.compare import num_eq, proj_eq, proj_eq_batch
from mc.core import family, lattice

REAL_GENS = ["shear", "swap", "proj", "det2", "detm3", "rot345", "trans", "proj2", "det2@int", "detm3@int", "proj2@int", "trans@int", "corner0"]
# similarities with factor 1e-3 / 1e3 (determinant 1e-9 / 1e9 in 3D): used for the incidence of points with lines, planes and
# quadrics only. Joins and meets of objects scaled like this fall below the library's absolute 1e-8 tolerance on the pinned
# tree (three points with coordinates 1e-3 are "dependent"), which section 8 of DESIGN.md declares outside the bounds.
SCALE_GENS = ["contract", "expand"]


def to_ints(v):
    m = lcm(*[F(x).denominator for x in v])
    return tuple(int(F(x) * m) for x in v)


def transform_vecs(kind, vecs, M, MiT):
    """Exact images of the constituent vectors of a join/meet configuration (points by M, hyperplanes by M^-T)."""
    op, spec, rk, n = JM.KINDS[kind]
    out = []
    for c, vs in JM.split_args(spec, vecs):
        for v in vs:
            A = M if c in "PL" else MiT
            out.append(to_ints(X.matvec(A, [F(x) for x in v])))
    return tuple(out)


def scope(kind, tier):
    op, spec, rk, n = JM.KINDS[kind]
    k = JM.nvec(spec)
    if n == 3:
        alpha = lattice(3, 1)
    elif k <= 3:
        alpha = JM.T3() if tier == "quick" and k == 3 else (JM.proj_reps(JM.A3()) if k == 3 else JM.A3())
        if k == 3 and tier == "quick":
            alpha = JM.T3()[:14]
    else:
        alpha = JM.C3()[:9] if tier == "quick" else JM.C3()
    return list(itertools.product(alpha, repeat=k))


def enum_commute(tier, seed):
    for kind in JM.KINDS:
        for g in REAL_GENS:
            yield (kind, g)


@family("C07", "commute_join_meet", enum_commute)
def case_commute(ctx, cfg):
    import geometer as G

    kind, g = cfg
    op, spec, rk, n = JM.KINDS[kind]
    dim = n - 1
    M = XF.gen_matrix(dim, g)
    MiT = X.transpose(X.inv(M))
    t = XF.real_t(G, dim, g)
    rows, want = [], []
    for vecs in scope(kind, ctx.tier):
        c = JM.classify(kind, vecs)
        if c[0] != "ok":
            continue
        tv = transform_vecs(kind, vecs, M, MiT)
        c2 = JM.classify(kind, tv)
        assert c2[0] == "ok", "an invertible map preserves general position"
        rows.append(vecs)
        want.append(JM.exp_np(c2[1]))
    if not rows:
        return
    ctx.tally(f"{kind}:configs", len(rows))
    base = hash((kind, g))
    ctx.states.update(hash((base, i)) for i in range(len(rows)))
    ctx.nontrivial.update(hash((base, i)) for i in range(len(rows)))
    want = np.array(want)
    argspec = JM.split_args(spec, list(range(JM.nvec(spec))))
    args = [JM.build_coll(G, c, [[r[p] for r in rows] for p in pos], "int64", n, (len(rows),)) for c, pos in argspec]
    f = G.join if op == "join" else G.meet
    inputs = {"kind": kind, "generator": g}

    def judge(res, e, tag):
        if e is not None:
            ctx.fail(f"{kind}:{tag}:{type(e).__name__}", tag, inputs, "collection", e)
            return True
        if res.array.shape != want.shape:
            ctx.fail(f"{kind}:{tag}:shape", tag, inputs, list(want.shape), list(res.array.shape))
            return True
        good = proj_eq_batch(res.array, want, 1e-9, tensor_axes=want.ndim - 1)
        if not np.all(good):
            j = int(np.argmin(good))
            ctx.fail(f"{kind}:{tag}:value", tag, {**inputs, "vectors": rows[j]}, want[j], res.array[j])
            return True
        return False

    # t * op(a, b, ...)
    base_res, e0 = ctx.call(f, *args)
    ctx.trace(len(rows))
    if e0 is not None:
        ctx.fail(f"{kind}:untransformed:{type(e0).__name__}", op, inputs, "collection", e0)
        return
    r1, e1 = ctx.call(lambda: t * base_res)
    ctx.trace(len(rows))
    if judge(r1, e1, f"t*{op}(...)"):
        return
    if type(r1) is not type(base_res):
        ctx.fail(f"{kind}:t*{op}(...):class", "t*x", inputs, type(base_res).__name__, type(r1).__name__)
        return
    # op(t*a, t*b, ...)
    targs = []
    for a in args:
        ta, e = ctx.call(lambda: t * a)
        if e is not None or type(ta) is not type(a):
            ctx.fail(f"{kind}:t*argument:{'class' if e is None else type(e).__name__}", "t*x", inputs, type(a).__name__, e if e is not None else type(ta).__name__)
            return
        targs.append(ta)
    r2, e2 = ctx.call(f, *targs)
    ctx.trace(len(rows))
    if judge(r2, e2, f"{op}(t*...)"):
        return
    # scalar path on the first configurations
    for j in range(0, len(rows), max(1, len(rows) // (12 if ctx.tier == "quick" else 60))):
        sargs = [JM.build(G, c, [rows[j][p] for p in pos], "float64", n) for c, pos in argspec]
        a1, ea = ctx.call(lambda: t * f(*sargs))
        a2, eb = ctx.call(lambda: f(*[t * s for s in sargs]))
        ctx.trace(2)
        for tag, r, e in ((f"scalar:t*{op}(...)", a1, ea), (f"scalar:{op}(t*...)", a2, eb)):
            if e is not None or not proj_eq(r.array, want[j], 1e-9):
                ctx.fail(f"{kind}:{tag}", tag, {**inputs, "vectors": rows[j]}, want[j], e if e is not None else r.array)
                return


# ---------------------------------------------------------------------------------------------------
# incidence


def enum_incidence(tier, seed):
    for g in REAL_GENS:
        yield ("2d:line-point", g)
        yield ("3d:plane-point", g)
        yield ("3d:line-point", g)
        yield ("3d:plane-line", g)
    for g in SCALE_GENS:
        yield ("2d:line-point", g)
        yield ("3d:plane-point", g)
        yield ("3d:line-point", g)


@family("C07", "incidence", enum_incidence)
def case_incidence(ctx, cfg):
    import geometer as G

    what, g = cfg
    dim = 2 if what.startswith("2d") else 3
    n = dim + 1
    M = XF.gen_matrix(dim, g)
    t = XF.real_t(G, dim, g)
    if what == "2d:line-point":
        H = np.array(JM.proj_reps(lattice(3, 2)))
        P = np.array(lattice(3, 2))
        S = G.LineCollection(H)
        exact = (H @ P.T) == 0
        pts = G.PointCollection(P)
    elif what == "3d:plane-point":
        H = np.array(JM.proj_reps(JM.A3()))
        P = np.array(JM.A3())
        S = G.PlaneCollection(H)
        exact = (H @ P.T) == 0
        pts = G.PointCollection(P)
    elif what == "3d:line-point":
        t3 = JM.T3()
        pairs = [(p, q) for p, q in itertools.combinations(t3, 2) if X.irank([list(p), list(q)]) == 2]
        S = G.LineCollection(G.PointCollection(np.array([p for p, q in pairs])), G.PointCollection(np.array([q for p, q in pairs])))
        P = np.array(JM.A3())
        exact = np.array([[X.irank([list(p), list(q), list(x)]) == 2 for x in JM.A3()] for p, q in pairs])
        pts = G.PointCollection(P)
    else:
        t3 = JM.T3()
        pairs = [(p, q) for p, q in itertools.combinations(t3, 2) if X.irank([list(p), list(q)]) == 2]
        H = np.array(JM.proj_reps(JM.A3()))
        S = G.PlaneCollection(H)
        pts = G.LineCollection(G.PointCollection(np.array([p for p, q in pairs])), G.PointCollection(np.array([q for p, q in pairs])))
        Pq = np.array([[p, q] for p, q in pairs])
        exact = np.all(np.einsum("hi,lki->hlk", H, Pq) == 0, axis=-1)
    ns, npts = exact.shape
    ctx.tally(f"{what}:incident", int(exact.sum()))
    ctx.tally(f"{what}:not-incident", int((~exact).sum()))
    base = hash(cfg)
    ctx.states.update(hash((base, i)) for i in range(ns * npts))
    ctx.nontrivial.update(hash((base, i)) for i in range(ns * npts))
    inputs = {"what": what, "generator": g}

    def contains_grid(S_, X_):
        nfree_x = 1
        Se = S_.expand_dims(1)  # (ns, 1, ...)
        Xe = X_.expand_dims(0)  # (1, npts, ...)
        return Se.contains(Xe)

    r0, e0 = ctx.call(contains_grid, S, pts)
    ctx.trace(ns * npts)
    if e0 is not None or r0.shape != exact.shape or not np.array_equal(r0, exact):
        j = None if e0 is not None or r0.shape != exact.shape else tuple(int(x) for x in np.argwhere(r0 != exact)[0])
        ctx.fail(f"{what}:contains", "contains", {**inputs, "position": j}, "exact incidence", e0 if e0 is not None else "mismatch")
        return
    tS, e1 = ctx.call(lambda: t * S)
    tX, e2 = ctx.call(lambda: t * pts)
    if e1 is not None or e2 is not None:
        ctx.fail(f"{what}:transform-raises", "t*x", inputs, "objects", e1 or e2)
        return
    r1, e3 = ctx.call(contains_grid, tS, tX)
    ctx.trace(ns * npts)
    if e3 is not None or r1.shape != exact.shape or not np.array_equal(r1, exact):
        j = None if e3 is not None or r1.shape != exact.shape else tuple(int(x) for x in np.argwhere(r1 != exact)[0])
        ctx.fail(f"{what}:contains-after-transformation", "(t*S).contains(t*x)", {**inputs, "position": j}, "exact incidence", e3 if e3 is not None else "mismatch")
        return
    # a TransformationCollection that mixes affine and genuinely projective members, applied to hyperplanes and points
    if g == "proj" and what in ("2d:line-point", "3d:plane-point"):
        names = ["shear", "proj", "trans", "proj2", "det2", "rot345"]
        Ms = [XF.gen_matrix(dim, nm) for nm in names]
        tcm = G.TransformationCollection(np.stack([XF.mat_np(Mm) for Mm in Ms]))
        for i in range(0, ns, max(1, ns // 8)):
            tSi, e = ctx.call(lambda: tcm * S[i])
            if e is not None:
                ctx.fail(f"{what}:mixed-affine-projective-collection:{type(e).__name__}", "tc*S", {**inputs, "hyperplane": H[i]}, "hyperplanes", e)
                return
            arr = np.asarray(tSi.array)
            for k_, Mm in enumerate(Ms):
                wantk = np.array([float(x) for x in X.matvec(X.transpose(X.inv(Mm)), [F(int(x)) for x in H[i]])])
                if not proj_eq(arr[k_], wantk, 1e-9):
                    ctx.fail(f"{what}:mixed-affine-projective-collection:value", "tc*S", {**inputs, "hyperplane": H[i], "member": names[k_]}, wantk, arr[k_])
                    return
    # a TransformationCollection of 70 similarities around the same scale (the kernels switch algorithm at 64 matrices),
    # applied to one hyperplane and to some of its points and non-points
    if g in SCALE_GENS and what in ("2d:line-point", "3d:plane-point"):
        f0 = float(M[0][0])
        mats = np.stack([np.diag([f0 * (1 + k / 100)] * dim + [1.0]) for k in range(70)])
        tc = G.TransformationCollection(mats)
        for i in range(0, ns, max(1, ns // 6)):
            Si = S[i]
            tSi, e = ctx.call(lambda: tc * Si)
            if e is not None or np.asarray(tSi.array).shape[0] != 70:
                ctx.fail(f"{what}:collection-of-70-similarities:{type(e).__name__ if e is not None else 'shape'}", "tc*S", {**inputs, "hyperplane": H[i]}, "70 hyperplanes", e if e is not None else list(np.asarray(tSi.array).shape))
                return
            for j in range(0, npts, max(1, npts // 8)):
                tp, e = ctx.call(lambda: G.PointCollection(np.einsum("kij,j->ki", mats, P[j].astype(float))))
                r, e2 = ctx.call(lambda: G.PlaneCollection(np.asarray(tSi.array)).contains(tp) if dim == 3 else G.LineCollection(np.asarray(tSi.array)).contains(tp))
                ctx.trace(70)
                if e2 is not None or not np.array_equal(np.asarray(r), np.full(70, exact[i, j])):
                    ctx.fail(f"{what}:collection-of-70-similarities:contains", "(tc*S).contains(tc*x)", {**inputs, "hyperplane": H[i], "point": P[j]}, bool(exact[i, j]), e2 if e2 is not None else np.asarray(r))
                    return


# ---------------------------------------------------------------------------------------------------
# quadrics: point on / hyperplane tangent


CONICS = [
    ((1, 0, 0), (0, 1, 0), (0, 0, -1)),  # unit circle
    ((1, 0, 0), (0, 1, 0), (0, 0, -25)),  # x^2+y^2=25: many lattice points
    ((0, 1, 0), (1, 0, 0), (0, 0, -2)),  # xy = 1 (hyperbola)
    ((1, 0, 0), (0, 0, -1), (0, -1, 0)),  # parabola x^2 = 2y
    ((1, 1, 0), (1, -1, 1), (0, 1, 2)),  # generic
    ((2, 0, 1), (0, -1, 0), (1, 0, -1)),
]
QUADRICS3 = [
    ((1, 0, 0, 0), (0, 1, 0, 0), (0, 0, 1, 0), (0, 0, 0, -1)),  # unit sphere
    ((1, 0, 0, 0), (0, 1, 0, 0), (0, 0, 1, 0), (0, 0, 0, -9)),
    ((1, 0, 0, 0), (0, 1, 0, 0), (0, 0, -1, 0), (0, 0, 0, -1)),  # hyperboloid
    ((0, 1, 0, 0), (1, 0, 0, 0), (0, 0, 0, 1), (0, 0, 1, 0)),  # xy + zw
    ((1, 1, 0, 0), (1, -1, 0, 1), (0, 0, 2, 0), (0, 1, 0, 1)),  # generic
]


def enum_quadric(tier, seed):
    for g in REAL_GENS + SCALE_GENS:
        for dim in (2, 3):
            for dual in (False, True):
                yield (dim, g, dual)


@family("C07", "quadric_incidence", enum_quadric)
def case_quadric(ctx, cfg):
    import geometer as G
    from checks.c20 import vadj

    dim, g, dual = cfg
    n = dim + 1
    M = XF.gen_matrix(dim, g)
    t = XF.real_t(G, dim, g)
    mats = np.array(CONICS if dim == 2 else QUADRICS3, dtype=np.int64)
    P = np.array(lattice(3, 2) if dim == 2 else JM.A3() + [(3, 0, 0, 1), (0, 0, 3, -1), (1, 2, 2, 3), (2, 1, -2, 3)])
    adj = vadj(mats)
    on = np.einsum("pi,qij,pj->qp", P, mats, P) == 0  # point on quadric (exact integers)
    tang = np.einsum("pi,qij,pj->qp", P, adj, P) == 0  # hyperplane (same coordinates) tangent: h adj(A) h = 0
    inputs = {"dim": dim, "generator": g, "dual_quadric_transformed": dual}
    base = hash(cfg)
    ctx.states.update(hash((base, i)) for i in range(on.size))
    ctx.nontrivial.update(hash((base, i)) for i in range(on.size))
    ctx.tally("points-on", int(on.sum()))
    ctx.tally("planes-tangent", int(tang.sum()))
    for qi in range(len(mats)):
        Q = (G.Conic if dim == 2 else G.Quadric)(mats[qi].astype(float))
        pts = G.PointCollection(P.astype(float))
        hyp = (G.LineCollection if dim == 2 else G.PlaneCollection)(P.astype(float))
        tQ, e = ctx.call(lambda: t * Q)
        tp, e2 = ctx.call(lambda: t * pts)
        th, e3 = ctx.call(lambda: t * hyp)
        if e or e2 or e3:
            ctx.fail("quadric:transform-raises", "t*x", {**inputs, "quadric": mats[qi]}, "objects", e or e2 or e3)
            return
        if not dual:
            for tag, q_, p_ in (("contains", Q, pts), ("contains-after-transformation", tQ, tp)):
                r, e = ctx.call(q_.contains, p_)
                ctx.trace(len(P))
                if e is not None or not np.array_equal(np.asarray(r), on[qi]):
                    j = None if e is not None else int(np.argwhere(np.asarray(r) != on[qi])[0][0])
                    ctx.fail(f"quadric:{tag}", tag, {**inputs, "quadric": mats[qi], "point": None if j is None else P[j]}, None if j is None else bool(on[qi][j]), e if e is not None else bool(np.asarray(r)[j]))
                    return
            for tag, q_, h_ in (("is_tangent", Q, hyp), ("is_tangent-after-transformation", tQ, th)):
                r, e = ctx.call(q_.is_tangent, h_)
                ctx.trace(len(P))
                if e is not None or not np.array_equal(np.asarray(r), tang[qi]):
                    j = None if e is not None else int(np.argwhere(np.asarray(r) != tang[qi])[0][0])
                    ctx.fail(f"quadric:{tag}", tag, {**inputs, "quadric": mats[qi], "hyperplane": None if j is None else P[j]}, None if j is None else bool(tang[qi][j]), e if e is not None else bool(np.asarray(r)[j]))
                    return
            # history: the same quadric transformed AFTER it has answered queries (stale cached attributes would show here)
            tQ2, e = ctx.call(lambda: t * Q)
            r, e2 = ctx.call(tQ2.is_tangent, th) if e is None else (None, e)
            r3, e3 = ctx.call(tQ2.contains, tp) if e2 is None else (None, e2)
            ctx.trace(2 * len(P))
            if e3 is not None or not np.array_equal(np.asarray(r), tang[qi]) or not np.array_equal(np.asarray(r3), on[qi]):
                ctx.fail("quadric:transformed-after-queries", "(t*Q).is_tangent(t*h) after Q.is_tangent(h)", {**inputs, "quadric": mats[qi]}, "same answers as for a quadric transformed before any query", e3 if e3 is not None else "mismatch")
                return
        else:
            # the dual quadric transformed directly: contains exactly the images of the tangent hyperplanes
            D, e = ctx.call(lambda: Q.dual)
            if e is not None:
                ctx.fail("quadric:dual-raises", "dual", {**inputs, "quadric": mats[qi]}, "dual quadric", e)
                return
            tD, e = ctx.call(lambda: t * D)
            if e is not None or not getattr(tD, "is_dual", False):
                ctx.fail("quadric:transformed-dual:is_dual", "t*dual", {**inputs, "quadric": mats[qi]}, "dual quadric", e if e is not None else "is_dual lost")
                return
            for tag, q_, h_ in (("dual.contains", D, hyp), ("(t*dual).contains(t*h)", tD, th)):
                r, e = ctx.call(q_.contains, h_)
                ctx.trace(len(P))
                if e is not None or not np.array_equal(np.asarray(r), tang[qi]):
                    j = None if e is not None else int(np.argwhere(np.asarray(r) != tang[qi])[0][0])
                    ctx.fail(f"quadric:{tag}", tag, {**inputs, "quadric": mats[qi], "hyperplane": None if j is None else P[j]}, None if j is None else bool(tang[qi][j]), e if e is not None else bool(np.asarray(r)[j]))
                    return
            # (t*Q).dual == t*(Q.dual)
            d2, e = ctx.call(lambda: tQ.dual)
            if e is not None or not proj_eq(d2.array, tD.array, 1e-9):
                ctx.fail("quadric:dual-commutes", "(t*Q).dual", {**inputs, "quadric": mats[qi]}, tD.array, e if e is not None else d2.array)
                return


# ---------------------------------------------------------------------------------------------------
# cross ratios are unchanged


PARAMS = ["inf", -1, 0, 1, 2]


def pt_on(a, b, x):
    if x == "inf":
        return tuple(b)
    return tuple(ai + x * bi for ai, bi in zip(a, b))


def cr_exact(x):
    """((x1-x3)(x2-x4)) / ((x1-x4)(x2-x3)) with the usual limits for a parameter at infinity."""
    def d(i, j):
        if x[i] == "inf" and x[j] == "inf":
            return F(0)
        if x[i] == "inf":
            return None  # factor "infinity"
        if x[j] == "inf":
            return None
        return F(x[i] - x[j])

    num = [d(0, 2), d(1, 3)]
    den = [d(0, 3), d(1, 2)]
    # infinite factors cancel pairwise (each parameter occurs once in numerator and once in denominator)
    n_inf, d_inf = sum(v is None for v in num), sum(v is None for v in den)
    assert n_inf == d_inf
    sgn = 1
    # (inf - a)/(inf - b) -> 1 ; (a - inf)/(inf - b) -> -1 : track orientation
    def sign_of(i, j):
        return 1 if x[i] == "inf" else -1

    for (i, j), v in (((0, 2), num[0]), ((1, 3), num[1])):
        if v is None:
            sgn *= sign_of(i, j)
    for (i, j), v in (((0, 3), den[0]), ((1, 2), den[1])):
        if v is None:
            sgn *= sign_of(i, j)
    nu = F(1)
    for v in num:
        if v is not None:
            nu *= v
    de = F(1)
    for v in den:
        if v is not None:
            de *= v
    if de == 0:
        return "inf"
    return sgn * nu / de


def enum_cr(tier, seed):
    for g in REAL_GENS:
        for dim in (2, 3):
            yield (dim, g)


@family("C07", "crossratio_invariance", enum_cr)
def case_cr(ctx, cfg):
    import geometer as G

    dim, g = cfg
    M = XF.gen_matrix(dim, g)
    t = XF.real_t(G, dim, g)
    lines = [((0, 0, 1), (1, 0, 0)), ((1, 2, 1), (1, -1, 0)), ((0, 1, 1), (2, 1, 1))] if dim == 2 else [((0, 0, 0, 1), (1, 0, 0, 0)), ((1, 2, 0, 1), (1, -1, 2, 0)), ((0, 1, 1, 1), (2, 1, 0, 1))]
    for a, b in lines:
        for xs in itertools.permutations(PARAMS, 4):
            want = cr_exact(xs)
            if want == "inf":
                continue
            pts = [G.Point(np.array(pt_on(a, b, x), dtype=float)) for x in xs]
            ctx.state((cfg, a, b, xs))
            c0, e0 = ctx.call(G.crossratio, *pts)
            tp = [t * p for p in pts]
            c1, e1 = ctx.call(G.crossratio, *tp)
            ctx.trace(2)
            for tag, c, e in (("points", c0, e0), ("points-after-transformation", c1, e1)):
                if e is not None or not num_eq(c, float(want), 1e-9, 1e-9):
                    ctx.fail(f"crossratio:{tag}", "crossratio", {"dim": dim, "generator": g, "a": a, "b": b, "parameters": xs}, float(want), e if e is not None else c)
                    return
            if dim == 2:
                # four concurrent lines through these points from a vertex off the line, and their images
                v = G.Point(np.array([3.0, 5.0, 2.0]))
                ls = [G.join(v, p) for p in pts]
                c2, e2 = ctx.call(G.crossratio, *ls)
                c3, e3 = ctx.call(G.crossratio, *[t * l for l in ls])
                ctx.trace(2)
                for tag, c, e in (("lines", c2, e2), ("lines-after-transformation", c3, e3)):
                    if e is not None or not num_eq(c, float(want), 1e-8, 1e-8):
                        ctx.fail(f"crossratio:{tag}", "crossratio", {"dim": dim, "generator": g, "a": a, "b": b, "parameters": xs, "vertex": [3, 5, 2]}, float(want), e if e is not None else c)
                        return
                c4, e4 = ctx.call(G.crossratio, *tp, t * v)
                if e4 is not None or not num_eq(c4, float(want), 1e-8, 1e-8):
                    ctx.fail("crossratio:from_point-after-transformation", "crossratio", {"dim": dim, "generator": g, "parameters": xs}, float(want), e4 if e4 is not None else c4)
                    return


# ---------------------------------------------------------------------------------------------------
# a transformed polytope has the images of the original vertices, in order


def enum_poly(tier, seed):
    for g in REAL_GENS:
        for dim in (2, 3):
            yield (dim, g)


@family("C07", "polytope_vertices", enum_poly)
def case_poly(ctx, cfg):
    import geometer as G

    dim, g = cfg
    M = XF.gen_matrix(dim, g)
    t = XF.real_t(G, dim, g)
    for d in XF.pool(dim):
        if d[0] not in ("poly", "cuboid", "simplex") and not (d[0] == "coll" and d[1][0] in ("Segment", "Polygon")):
            continue
        x = XF.build(G, d)
        st = XF.exact_state(G, d, x)
        ctx.state((cfg, XF.kind_name(d)))
        r, e = ctx.call(lambda: t * x)
        ctx.trace()
        want = XF.act(M, st)
        bad = f"exception:{type(e).__name__}" if e is not None else (XF.agrees(r, want) or (None if type(r) is type(x) else "class"))
        if bad:
            ctx.fail(f"polytope:{XF.kind_name(d)}:{bad.split(' ')[0]}", "t*polytope", {"dim": dim, "generator": g, "object": d}, XF.state_json(want), e if e is not None else r.array)
            return
        # the vertices property lists the images of the original vertices in order
        if d[0] == "poly":
            vs, e = ctx.call(lambda: r.vertices)
            if e is not None or len(vs) != len(want["V"]) or not all(proj_eq(v.array, XF.fl(w)) for v, w in zip(vs, want["V"])):
                ctx.fail(f"polytope:{XF.kind_name(d)}:vertices-property", "vertices", {"dim": dim, "generator": g, "object": d}, XF.state_json(want), e if e is not None else [v.array for v in vs])
                return


# ---------------------------------------------------------------------------------------------------
# history on ONE transformation object: used on hyperplanes / quadrics (which need its inverse), then an entry of its matrix
# is assigned in place (t[i, j] = v, the supported item assignment), then used again


def enum_modified(tier, seed):
    for dim in (2, 3):
        for g in ("shear", "proj", "det2", "rot345", "trans"):
            yield (dim, g)


@family("C07", "transformation_modified_in_place", enum_modified)
def case_modified(ctx, cfg):
    import geometer as G

    dim, g = cfg
    n = dim + 1
    M = [list(r) for r in XF.gen_matrix(dim, g)]
    t = G.Transformation(XF.mat_np(M))
    H = np.array(JM.proj_reps(lattice(3, 1) if dim == 2 else JM.A3()), dtype=float)
    Pts = np.array(lattice(3, 1) if dim == 2 else JM.A3(), dtype=float)
    S = (G.LineCollection if dim == 2 else G.PlaneCollection)(H)
    X_ = G.PointCollection(Pts)
    exact = (H @ Pts.T) == 0
    Q = G.Conic(np.diag([1.0, 1.0, -25.0])) if dim == 2 else G.Quadric(np.diag([1.0, 1.0, 1.0, -9.0]))
    ctx.state(cfg)

    def check(tag, Mx):
        Mi = X.inv(Mx)
        MiT = np.array([[float(x) for x in r] for r in X.transpose(Mi)])
        tS, e = ctx.call(lambda: t * S)
        tX, e2 = ctx.call(lambda: t * X_)
        tQ, e3 = ctx.call(lambda: t * Q)
        ctx.trace(len(H) + len(Pts) + 1)
        inputs = {"dim": dim, "generator": g, "history": tag}
        if e or e2 or e3:
            ctx.fail(f"modified:{tag}:raises", "t*x", inputs, "objects", e or e2 or e3)
            return False
        if not np.all(proj_eq_batch(tS.array, H @ MiT.T, 1e-9)):
            ctx.fail(f"modified:{tag}:hyperplanes", "t*hyperplanes", inputs, "M^-T h", "mismatch")
            return False
        r, e = ctx.call(lambda: tS.expand_dims(1).contains(tX.expand_dims(0)))
        if e is not None or not np.array_equal(r, exact):
            ctx.fail(f"modified:{tag}:incidence", "(t*S).contains(t*x)", inputs, "exact incidence", e if e is not None else "mismatch")
            return False
        Mif = np.array([[float(x) for x in r_] for r_ in Mi])
        if not proj_eq(tQ.array, Mif.T @ np.asarray(Q.array) @ Mif, 1e-9):
            ctx.fail(f"modified:{tag}:quadric", "t*quadric", inputs, "M^-T A M^-1", tQ.array)
            return False
        return True

    if not check("first-use", M):
        return
    # item assignment of one entry (translation part), then of a whole row
    M[0][n - 1] = M[0][n - 1] + 2
    t[0, n - 1] = float(M[0][n - 1])
    if not check("after-entry-assignment", M):
        return
    M[1] = [M[1][j] + (3 if j == 1 else 0) for j in range(n)]
    t[1] = np.array([float(x) for x in M[1]])
    if X.det(X.mat(M)) != 0:
        check("after-row-assignment", M)
