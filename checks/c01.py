"""C01: join and meet return exactly the span / intersection (families shared with C02 in joinmeet.py), and a history
family: operands that have already been used in a join / meet are transformed, copied or given another object's
coordinates and used again."""
from __future__ import annotations

import numpy as np

from checks import c07 as C7
from checks import joinmeet as JM
from checks import xform as XF
from mc import exact as X
from mc.compare import proj_eq
from mc.core import family

HISTORY_KINDS = ("join_ll_3", "meet_ll_3", "join_lm_3", "meet_ml_3", "join_lp_3", "meet_el_3", "meet_em_3", "join_ppp_3", "meet_eee_3", "join_pp_2", "meet_ll_2")


def enum_history(tier, seed):
    for kind in HISTORY_KINDS:
        for g in ("trans", "proj", "shear", "rot345"):
            yield (kind, g)


@family("C01", "used_then_derived", enum_history)
def case_history(ctx, cfg):
    import geometer as G

    kind, g = cfg
    op, spec, rk, n = JM.KINDS[kind]
    dim = n - 1
    M = XF.gen_matrix(dim, g)
    MiT = X.transpose(X.inv(M))
    t = XF.real_t(G, dim, g)
    f = G.join if op == "join" else G.meet
    argspec = JM.split_args(spec, list(range(JM.nvec(spec))))
    oks = [v for v in C7.scope(kind, "quick") if JM.classify(kind, v)[0] == "ok"]
    step = max(1, len(oks) // (40 if ctx.tier == "quick" else 400))
    prev = None
    for j in range(0, len(oks), step):
        vecs = oks[j]
        want0 = JM.exp_np(JM.classify(kind, vecs)[1])
        tv = C7.transform_vecs(kind, vecs, M, MiT)
        want1 = JM.exp_np(JM.classify(kind, tv)[1])
        ctx.state((kind, g, vecs))
        inputs = {"kind": kind, "generator": g, "vectors": vecs}
        args = [JM.build(G, c, [vecs[p] for p in pos], "float64", n) for c, pos in argspec]
        r0, e = ctx.call(f, *args)
        ctx.trace()
        if e is not None or not proj_eq(r0.array, want0, 1e-9):
            ctx.fail(f"{kind}:first-use", op, inputs, want0, e if e is not None else r0.array)
            return
        # the operands, used once, are transformed and used again
        targs, e = ctx.call(lambda: [t * a for a in args])
        r1, e = ctx.call(f, *targs) if e is None else (None, e)
        ctx.trace()
        if e is not None or not proj_eq(r1.array, want1, 1e-9):
            ctx.fail(f"{kind}:used-then-transformed", op, inputs, want1, e if e is not None else r1.array)
            return
        # ... copied and used again
        r2, e = ctx.call(lambda: f(*[a.copy() for a in args]))
        ctx.trace()
        if e is not None or not proj_eq(r2.array, want0, 1e-9):
            ctx.fail(f"{kind}:used-then-copied", op, inputs, want0, e if e is not None else r2.array)
            return
        # ... given in other homogeneous representatives (negative, imaginary, complex with argument +-45 and 135 degrees:
        # |re + im| of such a factor vanishes), each argument alone and all together
        for lam in (-2.0, 1j, 1 - 1j, -1 + 1j, 1 + 1j):
            for which in list(range(len(args))) + ["all"]:
                sargs = [type(a)(a.array * lam) if (which == "all" or which == i) else a for i, a in enumerate(args)]
                r5, e = ctx.call(f, *sargs)
                ctx.trace()
                if e is not None or not proj_eq(r5.array, want0, 1e-9):
                    ctx.fail(f"{kind}:representative-times-{'complex' if isinstance(lam, complex) else 'real'}", op, {**inputs, "factor": lam, "argument": which}, want0, e if e is not None else r5.array)
                    return
        # ... and the originals still answer as before
        r3, e = ctx.call(f, *args)
        if e is not None or not proj_eq(r3.array, want0, 1e-9):
            ctx.fail(f"{kind}:original-after-derivation", op, inputs, want0, e if e is not None else r3.array)
            return
        # copies that are given the coordinates of the previous configuration's operands answer for those coordinates
        if prev is not None:
            pargs, pwant = prev
            cargs = [a.copy() for a in args]
            for c_, p_ in zip(cargs, pargs):
                c_.array = p_.array.copy()
            r4, e = ctx.call(f, *cargs)
            ctx.trace()
            if e is not None or not proj_eq(r4.array, pwant, 1e-9):
                ctx.fail(f"{kind}:used-then-given-other-coordinates", op, inputs, pwant, e if e is not None else r4.array)
                return
        prev = (args, want0)
