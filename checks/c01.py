"""C01: join and meet return exactly the span / intersection (families shared with C02 in joinmeet.py)."""
from checks import joinmeet  # noqa: F401
