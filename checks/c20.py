"""C20 numeric kernels vs exact linear algebra on every code path (both sides of the size >= n*n*64 switch)."""
from __future__ import annotations

import itertools
from fractions import Fraction as F

import numpy as np

from mc import exact as X
from mc.core import family, lattice

# ---------------------------------------------------------------------------------------------------
# exact vectorised oracle (integer / Gaussian-integer entries: every product and sum below is exact)


def vdet(A):
    n = A.shape[-1]
    if n == 1:
        return A[..., 0, 0]
    if n == 2:
        return A[..., 0, 0] * A[..., 1, 1] - A[..., 0, 1] * A[..., 1, 0]
    s = 0
    for j in range(n):
        minor = np.delete(A[..., 1:, :], j, axis=-1)
        s = s + (-1) ** j * A[..., 0, j] * vdet(minor)
    return s


def vadj(A):
    n = A.shape[-1]
    out = np.zeros_like(A)
    for i in range(n):
        for j in range(n):
            minor = np.delete(np.delete(A, i, axis=-2), j, axis=-1)
            out[..., j, i] = (-1) ** (i + j) * vdet(minor)
    return out


def matrix_family(n, name):
    if name == "all":
        ent = {2: range(-2, 3), 3: range(-1, 2), 4: range(0, 2)}[n]
        A = np.array(list(itertools.product(ent, repeat=n * n)), dtype=np.int64).reshape(-1, n, n)
        return A
    if name == "twistA":  # n = 4, {0,1} entries with a fixed sign pattern
        A = matrix_family(4, "all")
        S = np.array([[1, -1, 1, 1], [1, 1, -1, 1], [-1, 1, 1, 1], [1, 1, 1, -1]])
        return A * S
    if name == "twistB":
        A = matrix_family(4, "all")
        S = np.array([[1, 1, -1, -1], [-1, 1, 1, -1], [1, -1, 1, 1], [-1, -1, -1, 1]])
        return A * S + np.eye(4, dtype=np.int64) * 2
    if name == "signedperm":  # n = 5
        out = []
        for p in itertools.permutations(range(5)):
            for s in itertools.product((1, -1), repeat=5):
                m = np.zeros((5, 5), dtype=np.int64)
                for i in range(5):
                    m[i, p[i]] = s[i]
                out.append(m)
        return np.array(out)
    if name == "idplus2":  # n = 5: I + a E_ij + b E_kl
        out = []
        pos = list(itertools.product(range(5), repeat=2))
        for (a, b) in itertools.combinations(range(25), 2):
            for x, y in itertools.product((-2, -1, 1, 2), repeat=2):
                m = np.eye(5, dtype=np.int64)
                m[pos[a]] += x
                m[pos[b]] += y
                out.append(m)
        return np.array(out)
    raise KeyError(name)


FAMS = [(2, "all"), (3, "all"), (4, "all"), (4, "twistA"), (4, "twistB"), (5, "signedperm"), (5, "idplus2"), (2, "all@2^-14"), (3, "all@2^-14"), (4, "twistB@2^-14")]
LAYOUTS = ["single", (2,), (63,), (64,), (65,), (128,), (2, 40)]
DTYPES = ["int64", "float64", "complex128"]


def enum_kernels(tier, seed):
    for n, fam in FAMS:
        for lay in LAYOUTS:
            for dt in DTYPES:
                if "@" in fam and (dt != "float64" or lay in ("single", (2,), (128,), (2, 40))):
                    continue  # the scaled families are float-only and visit both sides of the switch once
                yield (n, fam, lay if isinstance(lay, str) else list(lay), dt)


_ORACLE = {}


def _oracle(n, fam, dt):
    """Exact det / adjugate of the whole family, computed once per worker (vectorised integer cofactors)."""
    key = (n, fam, dt)
    if key not in _ORACLE and "@" in fam:
        # integer matrices times 2^-14: det, adjugate scale by exact powers of two (still exactly representable)
        _ORACLE.clear()
        A, dex, adjex = _oracle(n, fam.split("@")[0], "float64")
        sc = 2.0**-14
        res = (A * sc, dex * sc**n, adjex * sc ** (n - 1))
        _ORACLE.clear()
        _ORACLE[key] = res
    if key not in _ORACLE:
        _ORACLE.clear()  # keep one family in memory
        Ai = matrix_family(n, fam)
        A = _typed(Ai, dt)
        Aex = A if dt == "complex128" else Ai
        dex = vdet(Aex)
        adjex = vadj(Aex)
        # oracle self-check (exact): A adj(A) = det I, and Fraction determinant on a slice
        assert np.array_equal(Aex @ adjex, dex[..., None, None] * np.eye(n, dtype=Aex.dtype)), "oracle adjugate broken"
        if dt != "complex128":
            for k in range(0, len(Ai), max(1, len(Ai) // 40)):
                assert X.det(X.mat(Ai[k].tolist())) == int(dex[k]), "oracle det broken"
        _ORACLE[key] = (A, dex, adjex)
    return _ORACLE[key]


def _typed(A, dt):
    if dt == "complex128":
        return A + 1j * np.swapaxes(A, -1, -2)
    return A.astype(dt)


def _close(got, want, scale):
    got = np.asarray(got)
    if got.shape != np.asarray(want).shape:
        return np.zeros((), bool)
    with np.errstate(all="ignore"):
        return np.abs(got - want) <= 1e-9 * scale + 1e-9


@family("C20", "det_adjugate_inv", enum_kernels)
def case_kernels(ctx, cfg):
    from geometer.utils import adjugate, det, inv

    n, fam, lay, dt = cfg
    A_all = matrix_family(n, fam.split("@")[0])
    single = lay == "single"
    lay_t = () if single else tuple(lay)
    bs = int(np.prod(lay_t)) if lay_t else 1
    # which members of the family this configuration feeds through the kernels
    sel_all = np.arange(len(A_all))
    slow = n == 4 and bs < 64  # the Levi-Civita adjugate path costs ~2 ms per 4x4 matrix
    if ctx.tier == "quick":
        if slow:
            # declared sub-scope of quick: the residue classes 5 and (seed mod 16) of the family index
            sel_all = sel_all[(sel_all % 16 == 5) | (sel_all % 16 == ctx.seed % 16)]
        if single or bs <= 2:
            sel_all = sel_all[:1024] if slow else sel_all[:2048]
    total = len(sel_all)
    path = "switch>=64" if bs >= 64 else "switch<64"
    nchunks = -(-total // bs)
    A_typed, dex_all, adjex_all = _oracle(n, fam, dt)
    base = hash((n, fam, dt, path)) << 20
    for c in range(nchunks):
        idx = sel_all[(np.arange(c * bs, (c + 1) * bs)) % total]
        A = A_typed[idx]
        dex = dex_all[idx]
        adjex = adjex_all[idx]
        Ain = A[0] if single else A.reshape(lay_t + (n, n))
        want_d = dex[0] if single else dex.reshape(lay_t)
        want_adj = adjex[0] if single else adjex.reshape(lay_t + (n, n))
        scale = max(1.0, float(np.max(np.abs(want_adj))), float(np.max(np.abs(want_d))))
        ctx.states.update((base + idx).tolist())
        ctx.nontrivial.update((base + idx).tolist())
        ctx.tally(f"n{n}:{path}:{dt}", len(idx))
        ctx.tally("singular" , int(np.sum(dex == 0)))

        Ain0 = Ain.copy()

        def unchanged(opname):
            if not np.array_equal(Ain, Ain0):
                k = int(np.argwhere(np.any(np.asarray(Ain != Ain0).reshape(-1, n, n), axis=(-1, -2)))[0][0])
                ctx.fail(f"{opname}:operand-modified:n{n}:{path}", opname, {"A": Ain0.reshape(-1, n, n)[k], "layout": lay, "dtype": dt}, "input matrix unchanged", Ain.reshape(-1, n, n)[k])
                Ain[...] = Ain0
                return False
            return True

        # det
        got, e = ctx.call(det, Ain)
        unchanged("det")
        ctx.trace()
        if e is not None:
            ctx.fail(f"det:{type(e).__name__}", "det", {"n": n, "fam": fam, "layout": lay, "dtype": dt, "chunk": c}, "value", e)
        else:
            ok = _close(got, want_d, scale)
            if not np.all(ok):
                bad = np.argwhere(~np.atleast_1d(ok))[0]
                k = int(np.ravel_multi_index(tuple(bad), ok.shape)) if ok.shape else 0
                ctx.fail(f"det:n{n}:{path}", "det", {"A": A[k], "layout": lay, "dtype": dt}, want_d.ravel()[k] if not single else want_d, np.asarray(got).ravel()[k] if not single else got)
        # adjugate
        got, e = ctx.call(adjugate, Ain)
        ctx.trace()
        if unchanged("adjugate") and e is None and not slow:
            got_again, e_again = ctx.call(adjugate, Ain)
            if e_again is not None or not np.array_equal(np.asarray(got), np.asarray(got_again)):
                ctx.fail(f"adjugate:second-call-differs:n{n}:{path}", "adjugate", {"layout": lay, "dtype": dt, "n": n, "fam": fam, "chunk": c}, "same result", "differs")
        if e is not None:
            ctx.fail(f"adjugate:{type(e).__name__}", "adjugate", {"n": n, "fam": fam, "layout": lay, "dtype": dt, "chunk": c}, "value", e)
        else:
            ok = _close(got, want_adj, scale)
            if not np.all(ok):
                okm = np.all(ok.reshape(-1, n, n), axis=(-1, -2)) if ok.shape else ok
                k = int(np.argmin(okm)) if ok.shape else 0
                ctx.fail(f"adjugate:n{n}:{path}", "adjugate", {"A": A[k], "layout": lay, "dtype": dt}, adjex[k], np.asarray(got).reshape(-1, n, n)[k])
        # inv: non-singular members only (batches are re-packed to the same layout size where possible)
        ns = np.flatnonzero(dex != 0)
        sing = np.flatnonzero(dex == 0)
        if len(ns):
            sel = ns[np.arange(bs) % len(ns)]
            B = A[sel]
            Bin = B[0] if single else B.reshape(lay_t + (n, n))
            d_sel = dex[sel].astype(complex)
            want_inv = adjex[sel].astype(complex) / d_sel[:, None, None]
            want_inv = want_inv[0] if single else want_inv.reshape(lay_t + (n, n))
            Bin0 = Bin.copy()
            got, e = ctx.call(inv, Bin)
            ctx.trace()
            if not np.array_equal(Bin, Bin0):
                ctx.fail(f"inv:operand-modified:n{n}:{path}", "inv", {"layout": lay, "dtype": dt, "n": n, "fam": fam, "chunk": c}, "input matrix unchanged", "modified")
                Bin = Bin0
            if e is not None:
                ctx.fail(f"inv:{type(e).__name__}", "inv", {"n": n, "fam": fam, "layout": lay, "dtype": dt, "chunk": c}, "value", e)
            else:
                ok = _close(got, want_inv, max(1.0, float(np.max(np.abs(want_inv)))))
                if not np.all(ok):
                    okm = np.all(ok.reshape(-1, n, n), axis=(-1, -2)) if ok.shape else ok
                    k = int(np.argmin(okm)) if ok.shape else 0
                    ctx.fail(f"inv:n{n}:{path}", "inv", {"A": B[k], "layout": lay, "dtype": dt}, want_inv.reshape(-1, n, n)[k], np.asarray(got).reshape(-1, n, n)[k])
        # singular batch on the adjugate path must raise LinAlgError (exact det available for n = 2, 3 with int input)
        if bs >= 64 and n <= 3 and dt == "int64" and len(sing) and len(ns):
            B = A.copy()
            Bin = B.reshape(lay_t + (n, n))
            got, e = ctx.call(inv, Bin)
            ctx.trace()
            ctx.tally("singular_batch")
            if not isinstance(e, np.linalg.LinAlgError):
                ctx.fail("inv:singular-batch-no-LinAlgError", "inv", {"A": A[sing[0]], "layout": lay, "dtype": dt}, "LinAlgError", e if e is not None else "returned a value")


# ---------------------------------------------------------------------------------------------------
# null_space / orth


def enum_ns(tier, seed):
    shapes = [(1, 2), (1, 3), (1, 4), (2, 2), (2, 3), (2, 4), (3, 2), (3, 3)]
    if tier == "thorough":
        shapes.append((3, 4))
    for (m, n) in shapes:
        for usedim in (0, 1):
            for form in ("batch", "single"):
                yield (m, n, usedim, form)
    # Gaussian-integer entries {0, 1, i, -1, 1+i}
    for (m, n) in [(1, 2), (1, 3), (2, 2), (2, 3)] + ([(3, 2), (1, 4)] if tier == "thorough" else []):
        for usedim in (0, 1):
            for form in ("batch", "single"):
                yield (m, n, usedim, form, "gauss")
    # the same real matrices multiplied by 1000, 37 and 2^-10 (rank, kernel and range are unchanged; a rank tolerance that
    # is not relative to the largest singular value is not), with the rank decided by the library (dim=None)
    for (m, n) in [(2, 2), (2, 3), (3, 2), (3, 3)] + ([(2, 4), (3, 4)] if tier == "thorough" else []):
        for scale in (1000.0, 37.0, 2.0 ** -10):
            for form in ("batch", "single"):
                yield (m, n, 0, form, "real", scale)


def _exact_ranks(A):
    # exact rank of small integer matrices via Fractions; cached per shape through vectorised minors would be
    # faster, but boring is better: ranks are computed with the Fraction rref.
    return np.array([X.rank(X.mat(a.tolist())) for a in A])


_RANK_CACHE = {}


def _family_ns(m, n, gauss=False):
    key = (m, n, gauss)
    if key not in _RANK_CACHE:
        if gauss:
            A = np.array(list(itertools.product((0, 1, 1j, -1, 1 + 1j), repeat=m * n)), dtype=complex).reshape(-1, m, n)
        else:
            A = np.array(list(itertools.product((-1, 0, 1), repeat=m * n)), dtype=np.int64).reshape(-1, m, n)
        # exact rank through integer minors (vectorised, exact): rank = largest k with a non-zero k-minor
        r = np.zeros(len(A), dtype=int)
        for k in range(1, min(m, n) + 1):
            nz = np.zeros(len(A), dtype=bool)
            for rows in itertools.combinations(range(m), k):
                for cols in itertools.combinations(range(n), k):
                    nz |= vdet(A[:, rows, :][:, :, cols]) != 0
            r[nz] = k
        _RANK_CACHE[key] = (A, r)
    return _RANK_CACHE[key]


@family("C20", "null_space_orth", enum_ns)
def case_ns(ctx, cfg):
    from geometer.utils import null_space, orth

    m, n, usedim, form = cfg[:4]
    gauss = len(cfg) > 4 and cfg[4] == "gauss"
    scale = cfg[5] if len(cfg) > 5 else 1
    A, r = _family_ns(m, n, gauss)
    # Fraction / Q(i) cross-check of the vectorised rank oracle on a slice
    for k in range(0, len(A), max(1, len(A) // 50)):
        assert X.rank(X.mat(A[k].tolist())) == r[k], "rank oracle broken"
    for rk in range(0, min(m, n) + 1):
        sel = A[r == rk]
        if len(sel) == 0:
            continue
        if rk == 0 and not usedim:
            # the all-zero matrix: tolerance max(s)=0; still defined (kernel = everything)
            pass
        ctx.tally(f"shape{m}x{n}:rank{rk}" + (":complex" if gauss else ""), len(sel))
        if form == "single":
            lim = 300 if ctx.tier == "quick" else 3000
            sel = sel[:lim]
            batches = [s for s in sel]
        else:
            batches = [sel]
        for B in batches:
            Bf = B.astype(complex if gauss else float) * scale
            ctx.state((m, n, rk, usedim, form, scale, B.tobytes()))
            # null space
            kdim = n - rk
            args = (Bf, kdim) if usedim else (Bf,)
            if kdim == 0 and not usedim:
                # trivial kernel: an (n, 0) basis
                N, e = ctx.call(null_space, Bf)
                ctx.trace()
                if e is not None or N.shape[-2:] != (n, 0):
                    ctx.fail(f"null_space:{m}x{n}:trivial-kernel" + (":complex" if gauss else ""), "null_space", {"A": B if B.ndim == 2 else B[0], "dim": None, "form": form, "scale": scale}, [n, 0], e if e is not None else list(N.shape))
            if kdim > 0:
                N, e = ctx.call(null_space, *args)
                ctx.trace()
                if e is not None:
                    ctx.fail(f"null_space:{type(e).__name__}", "null_space", {"A": B if B.ndim == 2 else B[0], "dim": kdim if usedim else None, "form": form}, "basis", e)
                else:
                    ok = N.shape[-1] == kdim and N.shape[-2] == n
                    if ok:
                        G = np.swapaxes(N.conj(), -1, -2) @ N
                        ok = np.allclose(G, np.eye(kdim), atol=1e-9) and np.allclose(Bf @ N, 0, atol=1e-9 * max(scale, 1))
                    if not ok:
                        ctx.fail(f"null_space:{m}x{n}:rank{rk}:dim{usedim}" + (":complex" if gauss else ""), "null_space", {"A": B if B.ndim == 2 else B[0], "dim": kdim if usedim else None, "form": form, "scale": scale}, f"orthonormal kernel basis of dimension {kdim}", N if N.ndim == 2 else N[0])
            # orth
            if rk > 0:
                args = (Bf, rk) if usedim else (Bf,)
                Q, e = ctx.call(orth, *args)
                ctx.trace()
                if e is not None:
                    ctx.fail(f"orth:{type(e).__name__}", "orth", {"A": B if B.ndim == 2 else B[0], "dim": rk if usedim else None, "form": form}, "basis", e)
                else:
                    ok = Q.shape[-1] == rk and Q.shape[-2] == m
                    if ok:
                        G = np.swapaxes(Q.conj(), -1, -2) @ Q
                        P = Q @ np.swapaxes(Q.conj(), -1, -2)
                        ok = np.allclose(G, np.eye(rk), atol=1e-9) and np.allclose(P @ Bf, Bf, atol=1e-9 * max(scale, 1))
                    if not ok:
                        ctx.fail(f"orth:{m}x{n}:rank{rk}:dim{usedim}" + (":complex" if gauss else ""), "orth", {"A": B if B.ndim == 2 else B[0], "dim": rk if usedim else None, "form": form, "scale": scale}, f"orthonormal range basis of dimension {rk}", Q if Q.ndim == 2 else Q[0])


# ---------------------------------------------------------------------------------------------------
# roots


def _polymul(p, q):
    out = [0] * (len(p) + len(q) - 1)
    for i, a in enumerate(p):
        for j, b in enumerate(q):
            out[i + j] += a * b
    return out


def enum_roots(tier, seed):
    K = 3
    for c in lattice(4, K, nonzero=True):
        if c[0] == 0 and c[1] == 0 and c[2] == 0:
            continue  # constant: no roots defined
        yield ("coef", list(c))
    for c in lattice(3, K):
        if c[0] == 0 and c[1] == 0:
            continue
        yield ("coef", list(c))
    for c in lattice(2, K):
        if c[0] == 0:
            continue
        yield ("coef", list(c))
    rs = range(-2, 3) if tier == "quick" else range(-4, 5)
    for lead in (1, 2, -3):
        for r in itertools.combinations_with_replacement(rs, 3):
            p = [lead]
            for x in r:
                p = _polymul(p, [1, -x])
            yield ("fact", p, list(r))
        for r in itertools.combinations_with_replacement(rs, 2):
            p = [lead]
            for x in r:
                p = _polymul(p, [1, -x])
            yield ("fact", p, list(r))
            yield ("fact", [0] + p, list(r))
    # rational roots: (2x-1)^3, (2x-1)^2(x+3), ...
    for r in itertools.combinations_with_replacement([F(1, 2), F(-3, 2), F(1, 3), 2], 3):
        p = [1]
        for x in r:
            x = F(x)
            p = _polymul(p, [x.denominator, -x.numerator])
        yield ("fact", p, [str(F(x)) for x in r])


def _polyval(p, x):
    s = 0
    for c in p:
        s = s * x + c
    return s


def _distinct_root_count(p):
    """deg p - deg gcd(p, p') with exact rational polynomial arithmetic."""
    p = [F(c) for c in p]
    while p and p[0] == 0:
        p = p[1:]
    n = len(p) - 1
    dp = [c * (n - i) for i, c in enumerate(p[:-1])]

    def trim(q):
        while q and q[0] == 0:
            q = q[1:]
        return q

    def polymod(a, b):
        a = list(a)
        while len(a) >= len(b) and a:
            f = a[0] / b[0]
            for i in range(len(b)):
                a[i] -= f * b[i]
            a = a[1:]
        return trim(a)

    a, b = p, trim(dp)
    while b:
        a, b = b, polymod(a, b)
    return n, n - (len(a) - 1)


def _squarefree(p):
    """p / gcd(p, p') over Q (exact): same roots, all simple."""
    p = [F(c) for c in p]
    while p and p[0] == 0:
        p = p[1:]
    n = len(p) - 1
    dp = [c * (n - i) for i, c in enumerate(p[:-1])]

    def trim(q):
        while q and q[0] == 0:
            q = q[1:]
        return q

    def divmod_(a, b):
        a = list(a)
        q = []
        while len(a) >= len(b):
            f = a[0] / b[0]
            q.append(f)
            for i in range(len(b)):
                a[i] -= f * b[i]
            a = a[1:]
        return q, trim(a)

    a, b = p, trim(dp)
    while b:
        a, b = b, divmod_(a, b)[1]
    g = a
    q, r = divmod_(p, g)
    assert not r
    return q


def _reference_roots(p):
    """Reference: simple roots of the exact square-free part (rational roots exactly, the rest by the
    well-conditioned companion-matrix solver on a polynomial whose roots are all simple)."""
    q = _squarefree(p)
    ref = np.roots([float(c) for c in q]).astype(complex)
    for r in ref:  # self-check of the reference
        val = abs(_polyval([float(c) for c in q], r))
        assert val <= 1e-9 * sum(abs(float(c)) * abs(r) ** (len(q) - 1 - i) for i, c in enumerate(q)) + 1e-12, "reference roots inaccurate"
    return list(ref)


@family("C20", "roots", enum_roots)
def case_roots(ctx, cfg):
    from geometer.utils import roots

    kind, p = cfg[0], list(cfg[1])
    deg, ndist = _distinct_root_count(p)
    ctx.state(("roots", tuple(p)))
    ctx.tally(f"deg{deg}:distinct{ndist}")
    got, e = ctx.call(roots, p)
    ctx.trace()
    if e is not None:
        ctx.fail(f"roots:{type(e).__name__}", "roots", {"p": p}, "roots", e)
        return
    got = np.atleast_1d(np.asarray(got)).astype(complex)
    ref = _reference_roots(p)
    assert len(ref) == ndist
    near = lambda x, r: abs(x - r) <= 2e-5 * max(1.0, abs(r))  # noqa: E731  (multiple roots: eps**(1/m))
    bad = [x for x in got if not np.isfinite(x) or not any(near(x, r) for r in ref)]
    missing = [r for r in ref if not any(near(x, r) for x in got if np.isfinite(x))]
    sig = None
    if bad:
        sig = f"roots:not-a-root:deg{deg}:distinct{ndist}"
    elif missing:
        sig = f"roots:missing-root:deg{deg}:distinct{ndist}"
    elif len(got) > deg:
        sig = f"roots:too-many:deg{deg}"
    if kind == "fact" and sig is None:
        want = [float(F(r)) for r in cfg[2]]
        for w in set(want):
            if not any(abs(x - w) <= 1e-6 for x in got):
                sig = f"roots:missing-known-root:deg{deg}:distinct{ndist}"
    if sig:
        ctx.fail(sig, "roots", {"p": p}, {"distinct_roots": ndist, "known": cfg[2] if kind == "fact" else None}, got)


# ---------------------------------------------------------------------------------------------------
# is_multiple


def enum_ismult(tier, seed):
    yield ("real3", "batch")
    yield ("real3", "scalar")
    yield ("gauss3", "batch")
    yield ("gauss3", "scalar")
    yield ("real2", "axes")
    yield ("mat", "axes")


def _rank_le1(a, b):
    """exact: all 2x2 minors of the pair vanish (int64 / Gaussian-integer exact)."""
    m = a[..., :, None] * b[..., None, :]
    return np.all(m == np.swapaxes(m, -1, -2), axis=(-1, -2))


@family("C20", "is_multiple", enum_ismult)
def case_ismult(ctx, cfg):
    from geometer.utils import is_multiple

    alpha, form = cfg
    if alpha == "real3":
        V = np.array(list(itertools.product(range(-2, 3), repeat=3)), dtype=np.int64)
    elif alpha == "gauss3":
        g = [0, 1, 1j, -1, 1 + 1j, -1j]
        V = np.array(list(itertools.product(g, repeat=3)), dtype=complex)
    elif alpha == "real2":
        V = np.array(list(itertools.product(range(-2, 3), repeat=2)), dtype=np.int64)
    else:
        V = np.array(list(itertools.product(range(-1, 2), repeat=4)), dtype=np.int64)
    a = np.repeat(V, len(V), axis=0)
    b = np.tile(V, (len(V), 1))
    want = _rank_le1(a, b)
    for dt in ([np.int64, np.float64] if V.dtype != complex else [complex]):
        aa, bb = a.astype(dt), b.astype(dt)
        if form == "batch":
            for ax in (-1, 1, (1,), [-1]):
                got, e = ctx.call(is_multiple, aa, bb, axis=ax)
                ctx.trace(len(a))
                ctx.state((alpha, form, str(ax), np.dtype(dt).name))
                _judge_ismult(ctx, got, e, want, aa, bb, f"{alpha}:axis={ax}")
            # symmetric
            got2, e2 = ctx.call(is_multiple, bb, aa, axis=-1)
            _judge_ismult(ctx, got2, e2, want, bb, aa, f"{alpha}:swapped")
            # 3-D stacks: (n, n, d) with broadcasting single (n,1,d) x (1,n,d)
            n = len(V)
            got3, e3 = ctx.call(is_multiple, V.astype(dt)[:, None, :], V.astype(dt)[None, :, :], axis=-1)
            _judge_ismult(ctx, None if got3 is None else np.asarray(got3).reshape(-1), e3, want, aa, bb, f"{alpha}:broadcast")
            # axis=0 on transposed layout
            got4, e4 = ctx.call(is_multiple, aa.T.copy(), bb.T.copy(), axis=0)
            _judge_ismult(ctx, got4, e4, want, aa, bb, f"{alpha}:axis=0")
        elif form == "scalar":
            lim = len(a) if ctx.tier == "thorough" else min(len(a), 4000)
            step = 1
            for k in range(0, lim, step):
                got, e = ctx.call(is_multiple, aa[k], bb[k])
                ctx.trace()
                ctx.state((alpha, "scalar", k, np.dtype(dt).name))
                if e is not None or bool(got) != bool(want[k]):
                    ctx.fail(f"is_multiple:{alpha}:axis=None", "is_multiple", {"a": aa[k], "b": bb[k], "axis": None}, bool(want[k]), e if e is not None else bool(got))
                    break
        elif form == "axes":
            d = V.shape[1]
            if alpha == "mat":  # pairs of 2x2 matrices compared along both tensor axes
                A2, B2 = aa.reshape(-1, 2, 2), bb.reshape(-1, 2, 2)
                for ax in ((-2, -1), (1, 2), [-1, -2], (2, 1)):
                    got, e = ctx.call(is_multiple, A2, B2, axis=ax)
                    ctx.trace(len(a))
                    ctx.state((alpha, form, str(ax), np.dtype(dt).name))
                    _judge_ismult(ctx, got, e, want, A2, B2, f"{alpha}:axis={tuple(ax)}")
                # axis=None on single pairs (subset)
                for k in range(0, len(A2), 7):
                    got, e = ctx.call(is_multiple, A2[k], B2[k])
                    if e is not None or bool(got) != bool(want[k]):
                        ctx.fail(f"is_multiple:{alpha}:axis=None", "is_multiple", {"a": A2[k], "b": B2[k], "axis": None}, bool(want[k]), e if e is not None else bool(got))
                        break
            else:
                # stack of shape (n, k, d): compare along the last axis -> (n, k); along axes (1, 2) -> (n,)
                n = len(V)
                S1 = np.stack([aa.reshape(n, n, d)[:, :3, :]], 0)[0]
                S2 = np.stack([bb.reshape(n, n, d)[:, :3, :]], 0)[0]
                w12 = _rank_le1(S1.reshape(n, -1), S2.reshape(n, -1))
                got, e = ctx.call(is_multiple, S1, S2, axis=(1, 2))
                ctx.trace(n)
                ctx.state((alpha, form, "(1,2)", np.dtype(dt).name))
                _judge_ismult(ctx, got, e, w12, S1, S2, f"{alpha}:axis=(1,2)")
                wl = _rank_le1(S1, S2)
                got, e = ctx.call(is_multiple, S1, S2, axis=2)
                _judge_ismult(ctx, got, e, wl, S1, S2, f"{alpha}:axis=2")
    ctx.tally(f"{alpha}:{form}:pairs", len(a))
    ctx.tally(f"{alpha}:{form}:multiples", int(np.sum(want)))


def _judge_ismult(ctx, got, e, want, a, b, tag):
    if e is not None:
        ctx.fail(f"is_multiple:{tag}:{type(e).__name__}", "is_multiple", {"tag": tag}, "boolean array", e)
        return
    got = np.asarray(got)
    if got.shape != want.shape:
        ctx.fail(f"is_multiple:{tag}:shape", "is_multiple", {"tag": tag}, list(want.shape), list(got.shape))
        return
    if not np.array_equal(got, want):
        k = tuple(np.argwhere(got != want)[0])
        ctx.fail(f"is_multiple:{tag}", "is_multiple", {"a": a[k] if a.shape[: len(k)] == want.shape else a, "b": b[k] if b.shape[: len(k)] == want.shape else b, "tag": tag}, bool(want[k]), bool(got[k]))


# ---------------------------------------------------------------------------------------------------
# hat_matrix, outer, matmul, matvec


def enum_hat(tier, seed):
    yield ("hat3",)
    yield ("hat6",)
    yield ("hat10",)
    yield ("outer_matmul",)


@family("C20", "hat_outer_matmul", enum_hat)
def case_hat(ctx, cfg):
    from geometer.utils import hat_matrix, matmul, matvec, outer

    kind = cfg[0]
    if kind == "hat3":
        V = np.array(list(itertools.product(range(-2, 3), repeat=3)), dtype=np.int64)
        for dt in (np.int64, float, complex):
            Xs = V.astype(dt) * (1 + (1j if dt is complex else 0))
            H, e = ctx.call(hat_matrix, Xs)
            ctx.trace(len(V))
            if e is not None:
                ctx.fail("hat_matrix:exception", "hat_matrix", {"x": "all of {-2..2}^3", "dtype": np.dtype(dt).name}, "matrix", e)
                continue
            # hat(x) v = cross(v, x) for all lattice v (own cross formula)
            v = V.astype(dt)
            x = Xs
            lhs = np.einsum("xij,vj->xvi", H, v)
            vx = v[None, :, :]
            xx = x[:, None, :]
            rhs = np.stack([vx[..., 1] * xx[..., 2] - vx[..., 2] * xx[..., 1], vx[..., 2] * xx[..., 0] - vx[..., 0] * xx[..., 2], vx[..., 0] * xx[..., 1] - vx[..., 1] * xx[..., 0]], -1)
            ok = np.all(lhs == rhs, axis=(1, 2))
            skew = np.all(H == -np.swapaxes(H, -1, -2), axis=(1, 2))
            for k in range(len(V)):
                ctx.state(("hat3", k, np.dtype(dt).name))
            if not np.all(ok & skew):
                k = int(np.argmin(ok & skew))
                ctx.fail("hat_matrix:3d", "hat_matrix", {"x": Xs[k]}, "hat(x) v = cross(v, x), skew", H[k])
            # documented layout and scalar-argument form, batch shapes
            for k in range(0, len(V), 1 if ctx.tier == "thorough" else 5):
                a, b, c = Xs[k]
                doc = np.array([[0, c, -b], [-c, 0, a], [b, -a, 0]])
                h1, e1 = ctx.call(hat_matrix, a, b, c)
                h2, e2 = ctx.call(hat_matrix, Xs[k])
                if e1 is not None or e2 is not None or not (np.array_equal(h1, doc) and np.array_equal(h2, doc)):
                    ctx.fail("hat_matrix:3d-layout", "hat_matrix", {"x": Xs[k]}, doc, h1 if e1 is None else e1)
                    break
            Hb, e = ctx.call(hat_matrix, Xs[:120].reshape(4, 30, 3))
            if e is not None or Hb.shape != (4, 30, 3, 3) or not np.array_equal(Hb.reshape(-1, 3, 3), H[:120]):
                ctx.fail("hat_matrix:batch-shape", "hat_matrix", {"shape": [4, 30, 3]}, "stacked hat matrices", e if e is not None else list(Hb.shape))
    elif kind in ("hat6", "hat10"):
        d = 6 if kind == "hat6" else 10
        n = 4 if kind == "hat6" else 5
        base = np.arange(1, d + 1)
        variants = [base, -base, base * np.array([(-1) ** i for i in range(d)]), np.eye(d, dtype=int)[0], np.eye(d, dtype=int)[d - 1]]
        variants += [np.eye(d, dtype=int)[i] * (i + 2) for i in range(d)]
        for x in variants:
            H, e = ctx.call(hat_matrix, x)
            ctx.trace()
            ctx.state((kind, tuple(int(t) for t in x)))
            if e is not None:
                ctx.fail("hat_matrix:exception", "hat_matrix", {"x": x}, "matrix", e)
                continue
            ok = H.shape == (n, n) and np.array_equal(H, -H.T)
            if ok:
                iu = np.triu_indices(n, 1)
                up = H[iu]
                ok = sorted(up.tolist()) == sorted(x.tolist())  # each x_k exactly once above the diagonal, sign +
            if not ok:
                ctx.fail(f"hat_matrix:{d}-vector", "hat_matrix", {"x": x}, "skew matrix holding each x_k once above and -x_k below the diagonal", H)
        Hb, e = ctx.call(hat_matrix, np.stack(variants[:4]).reshape(2, 2, d))
        if e is not None or Hb.shape != (2, 2, n, n):
            ctx.fail("hat_matrix:batch-shape", "hat_matrix", {"shape": [2, 2, d]}, [2, 2, n, n], e if e is not None else list(Hb.shape))
    else:
        rng_vals = np.array(list(itertools.product(range(-1, 2), repeat=4)), dtype=np.int64)  # all 2x2 over {-1,0,1}
        A = rng_vals.reshape(-1, 2, 2)
        Ac = A + 1j * np.roll(A, 1, axis=0)
        n = len(A)
        P, Q = np.repeat(Ac, n, axis=0), np.tile(Ac, (n, 1, 1))
        for ta, tb, aa, ab in itertools.product((False, True), repeat=4):
            got, e = ctx.call(matmul, P, Q, transpose_a=ta, transpose_b=tb, adjoint_a=aa, adjoint_b=ab)
            ctx.trace(len(P))
            ctx.state(("matmul", ta, tb, aa, ab))
            L = P.conj() if aa else P
            R = Q.conj() if ab else Q
            if ta or aa:
                L = np.swapaxes(L, -1, -2)
            if tb or ab:
                R = np.swapaxes(R, -1, -2)
            want = np.einsum("nij,njk->nik", L, R)
            if e is not None or not np.array_equal(got, want):
                ctx.fail(f"matmul:flags", "matmul", {"transpose_a": ta, "transpose_b": tb, "adjoint_a": aa, "adjoint_b": ab}, "a' b'", e if e is not None else "mismatch")
        v = Ac[:, 0, :]
        Pv, Qv = np.repeat(Ac, n, axis=0), np.tile(v, (n, 1))
        for ta, aa in itertools.product((False, True), repeat=2):
            got, e = ctx.call(matvec, Pv, Qv, transpose_a=ta, adjoint_a=aa)
            ctx.trace(len(Pv))
            ctx.state(("matvec", ta, aa))
            L = Pv.conj() if aa else Pv
            if ta or aa:
                L = np.swapaxes(L, -1, -2)
            want = np.einsum("nij,nj->ni", L, Qv)
            if e is not None or not np.array_equal(got, want):
                ctx.fail("matvec:flags", "matvec", {"transpose_a": ta, "adjoint_a": aa}, "a' v", e if e is not None else "mismatch")
        # batch shapes: single x batch, batch x single, broadcasting between different leading shapes, several leading axes,
        # non-square factors; every flag combination (the stored operand is the transposed / conjugated one)
        def det_vals(shape, k0):
            m = int(np.prod(shape))
            vals = (np.arange(m) * 7 + k0) % 5 - 2
            return (vals + 1j * ((np.arange(m) * 3 + k0) % 3 - 1)).reshape(shape)

        shapes = [((2, 3), (5, 3, 2)), ((5, 2, 3), (3, 4)), ((2, 1, 2, 3), (1, 3, 3, 2)), ((4, 3, 2, 2), (4, 3, 2, 2)), ((3, 1, 3), (1, 3, 1)), ((2, 2, 2, 3, 3), (2, 3, 3))]
        for (sa, sb), (ta, tb, aa, ab) in itertools.product(shapes, itertools.product((False, True), repeat=4)):
            L, R = det_vals(sa, 1), det_vals(sb, 2)
            want = np.einsum("...ij,...jk->...ik", L, R)
            Pst = np.swapaxes(L, -1, -2) if (ta or aa) else L
            Pst = Pst.conj() if aa else Pst
            Qst = np.swapaxes(R, -1, -2) if (tb or ab) else R
            Qst = Qst.conj() if ab else Qst
            if (ta and aa) or (tb and ab):
                continue  # both flags on one operand: covered by the square case above
            got, e = ctx.call(matmul, np.ascontiguousarray(Pst), np.ascontiguousarray(Qst), transpose_a=ta, transpose_b=tb, adjoint_a=aa, adjoint_b=ab)
            ctx.trace()
            ctx.state(("matmul-batch", sa, sb, ta, tb, aa, ab))
            if e is not None or np.shape(got) != want.shape or not np.array_equal(got, want):
                ctx.fail("matmul:batch-shapes", "matmul", {"shape_a": list(Pst.shape), "shape_b": list(Qst.shape), "transpose_a": ta, "transpose_b": tb, "adjoint_a": aa, "adjoint_b": ab}, "broadcast matrix products", e if e is not None else list(np.shape(got)))
                break
        vshapes = [((2, 3), (5, 3)), ((5, 2, 3), (3,)), ((2, 1, 2, 3), (1, 4, 3)), ((4, 3, 3, 3), (4, 3, 3))]
        for (sa, sv), (ta, aa) in itertools.product(vshapes, ((False, False), (True, False), (False, True))):
            L, V = det_vals(sa, 3), det_vals(sv, 4)
            want = np.einsum("...ij,...j->...i", L, V)
            Pst = np.swapaxes(L, -1, -2) if (ta or aa) else L
            Pst = Pst.conj() if aa else Pst
            got, e = ctx.call(matvec, np.ascontiguousarray(Pst), V, transpose_a=ta, adjoint_a=aa)
            ctx.trace()
            ctx.state(("matvec-batch", sa, sv, ta, aa))
            if e is not None or np.shape(got) != want.shape or not np.array_equal(got, want):
                ctx.fail("matvec:batch-shapes", "matvec", {"shape_a": list(Pst.shape), "shape_v": list(V.shape), "transpose_a": ta, "adjoint_a": aa}, "broadcast matrix-vector products", e if e is not None else list(np.shape(got)))
                break
        U = np.array(list(itertools.product(range(-1, 2), repeat=3)), dtype=np.int64)
        got, e = ctx.call(outer, U[:, None, :] * (1 + 1j), U[None, :, :2])
        ctx.trace(len(U) ** 2)
        ctx.state(("outer",))
        want = np.einsum("ai,bj->abij", U * (1 + 1j), U[:, :2])
        if e is not None or not np.array_equal(got, want):
            ctx.fail("outer", "outer", {"shapes": [[27, 1, 3], [1, 27, 2]]}, "a_i b_j", e if e is not None else "mismatch")


# ---------------------------------------------------------------------------------------------------
# several leading batch axes: the kernels applied to a stack reshaped to (2, 3, ...), (6, 1, ...), (1, 6, ...), (2, 1, 3, ...)
# must return, position by position, what they return for the single matrices (which the families above compare with the
# exact oracles)


def enum_batch_axes(tier, seed):
    for fn in ("det", "inv", "adjugate", "null_space", "orth"):
        for n in (2, 3, 4):
            for dt in ("float64", "complex128", "int64"):
                yield (fn, n, dt)


@family("C20", "batch_axes", enum_batch_axes)
def case_batch_axes(ctx, cfg):
    import geometer.utils as U

    fn, n, dt = cfg
    ctx.state(cfg)
    k = np.arange(6 * n * n)
    A = ((k * 7 + 3) % 5 - 2).reshape(6, n, n).astype(np.int64)
    A = A + np.eye(n, dtype=np.int64)[None] * (np.arange(6)[:, None, None] % 3 + 11)  # diagonally dominant: invertible, also with the imaginary parts below
    if fn in ("null_space", "orth"):
        A[:, -1, :] = A[:, 0, :]  # rank deficient: a kernel of dimension >= 1
    if dt == "complex128":
        A = A + 1j * np.roll(A, 1, axis=-1) * (1 if fn not in ("null_space", "orth") else 0)
    A = A.astype(dt)
    if fn == "inv" and dt == "int64":
        return
    f = getattr(U, fn)
    kw = {}
    if fn in ("null_space", "orth"):
        kw = {"dim": 1} if fn == "null_space" else {"dim": n - 1}
    singles = []
    for i in range(6):
        r, e = ctx.call(f, A[i], **kw)
        ctx.trace()
        if e is not None:
            ctx.fail(f"{fn}:single-raises:{type(e).__name__}", fn, {"n": n, "dtype": dt, "matrix": A[i]}, "a result", e)
            return
        singles.append(np.asarray(r))
    for shape in ((6,), (2, 3), (3, 2), (6, 1), (1, 6), (2, 1, 3)):
        B = A.reshape(shape + (n, n))
        r, e = ctx.call(f, B, **kw)
        ctx.trace(6)
        inputs = {"n": n, "dtype": dt, "batch_shape": list(shape)}
        if e is not None or np.shape(r)[: len(shape)] != shape:
            ctx.fail(f"{fn}:batch-axes:{type(e).__name__ if e is not None else 'shape'}", fn, inputs, "leading shape " + str(list(shape)), e if e is not None else list(np.shape(r)))
            return
        flat = np.asarray(r).reshape((6,) + np.shape(r)[len(shape) :])
        for i in range(6):
            got, want = flat[i], singles[i]
            if fn in ("null_space", "orth"):
                # the same subspace (bases may differ): projectors agree
                ok = got.shape == want.shape and np.allclose(got @ got.conj().T, want @ want.conj().T, atol=1e-9)
            else:
                ok = got.shape == want.shape and np.allclose(got, want, rtol=1e-9, atol=1e-9)
            if not ok:
                ctx.fail(f"{fn}:batch-axes:value", fn, {**inputs, "position": i}, want, got)
                return
