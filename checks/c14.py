"""C14: quadric-line intersection, tangents, polars and duals are mutually consistent."""
from __future__ import annotations

import itertools
from fractions import Fraction as F

import numpy as np

from checks import joinmeet as JM
from checks.c20 import vadj, vdet
from mc import exact as X
from mc.compare import incident, on_quadric, proj_eq
from mc.core import family, lattice


def sym3():
    out = []
    for a, b, c, d, e, f in itertools.product((-1, 0, 1), repeat=6):
        if any((a, b, c, d, e, f)):
            out.append(((a, b, d), (b, c, e), (d, e, f)))
    return out


def two_points_on_line2(l):
    """Two independent integer points on the 2D line l."""
    cand = [X.cross([F(x) for x in l], [F(x) for x in e]) for e in ((1, 0, 0), (0, 1, 0), (0, 0, 1))]
    pts = [[int(x) for x in c] for c in cand if any(c)]
    for p, q in itertools.combinations(pts, 2):
        if X.irank([p, q]) == 2:
            return p, q
    raise AssertionError


def restrict(A, u, v):
    """Integer binary form (alpha, beta, gamma) of x^T A x on the line s u + t v."""
    A = np.array(A, dtype=object)
    u, v = np.array(u, dtype=object), np.array(v, dtype=object)
    return int(u @ A @ u), int(2 * (u @ A @ v)), int(v @ A @ v)


def roots_on_line(al, be, ga, u, v):
    """Common points s u + t v as complex coordinate vectors, from the exact integer form."""
    u, v = np.array(u, dtype=complex), np.array(v, dtype=complex)
    D = be * be - 4 * al * ga
    sq = np.sqrt(complex(D))
    if al != 0:
        return [(-be + sq) * u + 2 * al * v, (-be - sq) * u + 2 * al * v], D
    if ga != 0:
        return [2 * ga * u + (-be + sq) * v, 2 * ga * u + (-be - sq) * v], D
    # alpha = gamma = 0, beta != 0: s t = 0
    return [u, v], D


def match_points(got, want, tol):
    got, want = list(got), list(want)
    if len(got) == 1 and len(want) == 2 and proj_eq(want[0], want[1], max(tol, 1e-6)):
        want = want[:1]
    if len(got) != len(want):
        return False
    for perm in itertools.permutations(range(len(want))):
        if all(proj_eq(g, want[i], tol) for g, i in zip(got, perm)):
            return True
    return False


# ---------------------------------------------------------------------------------------------------


def enum_conic_line(tier, seed):
    conics = sym3()
    for ci, A in enumerate(conics):
        yield ("single", ci)
    for l in lattice(3, 2 if tier == "thorough" else 1):
        yield ("collection", l)


def classify_conic(A):
    d = X.idet4([list(r) for r in A])
    if d != 0:
        return "nondegenerate"
    return "rank2" if X.irank([list(r) for r in A]) == 2 else "rank1"


@family("C14", "conic_line", enum_conic_line)
def case_conic_line(ctx, cfg):
    import geometer as G

    form, data = cfg
    conics = sym3()
    lines = lattice(3, 2 if ctx.tier == "thorough" else 1)
    if form == "single":
        A = conics[data]
        cls = classify_conic(A)
        C = G.Conic(np.array(A, dtype=float))
        for l in lines:
            u, v = two_points_on_line2(l)
            al, be, ga = restrict(A, u, v)
            if al == be == ga == 0:
                ctx.skipped += 1
                ctx.tally("line-on-conic")
                continue
            want, D = roots_on_line(al, be, ga, u, v)
            kind = "tangent" if D == 0 else "secant-real" if D > 0 else "complex-pair"
            ctx.state((data, tuple(l)))
            ctx.tally(f"{cls}:{kind}")
            L = G.Line(np.array(l, dtype=float) * (1, -2)[data % 2])
            r, e = ctx.call(C.intersect, L)
            ctx.trace()
            inputs = {"conic": A, "line": l}
            if e is not None:
                ctx.fail(f"conic-line:{cls}:{kind}:{type(e).__name__}", "intersect", inputs, want, e)
                return
            pts = [np.asarray(p.array) for p in r]
            tol = 1e-6 if D == 0 else 1e-8
            if not all(type(p) is G.Point for p in r) or not match_points(pts, want, tol):
                ctx.fail(f"conic-line:{cls}:{kind}:points", "intersect", inputs, want, pts)
                return
            for p in pts:
                if not incident(np.array(l, dtype=float), p, 1e-6 if D == 0 else 1e-8) or not on_quadric(np.array(A, dtype=float), p, 1e-6 if D == 0 else 1e-8):
                    ctx.fail(f"conic-line:{cls}:{kind}:not-common-point", "intersect", inputs, "point on both", p)
                    return
    else:
        l = tuple(data)
        u, v = two_points_on_line2(l)
        for cls in ("nondegenerate", "rank2", "rank1", "mixed"):
            sel = [A for A in conics if cls == "mixed" or classify_conic(A) == cls]
            sel = [A for A in sel if restrict(A, u, v) != (0, 0, 0)]
            if cls == "mixed":
                sel = sel[::3]
            QC = G.QuadricCollection(np.array(sel, dtype=float))
            L = G.Line(np.array(l, dtype=float))
            base = hash((cls, l))
            ctx.states.update(hash((base, i)) for i in range(len(sel)))
            ctx.nontrivial.update(hash((base, i)) for i in range(len(sel)))
            for lform in ("single-line", "line-collection"):
                arg = L if lform == "single-line" else G.LineCollection(np.tile(np.array(l, dtype=float), (len(sel), 1)))
                r, e = ctx.call(QC.intersect, arg)
                ctx.trace(len(sel))
                inputs = {"conics": cls, "line": l, "line_form": lform}
                if e is not None or len(r) != 2:
                    ctx.fail(f"conic-line:collection:{cls}:{type(e).__name__ if e is not None else 'count'}", "intersect", inputs, "two point collections", e if e is not None else len(r))
                    break
                for i, A in enumerate(sel):
                    al, be, ga = restrict(A, u, v)
                    want, D = roots_on_line(al, be, ga, u, v)
                    pts = [np.asarray(r[0].array[i]), np.asarray(r[1].array[i])]
                    if not match_points(pts, want, 1e-6 if D == 0 else 1e-8):
                        ctx.fail(f"conic-line:collection:{cls}:points", "intersect", {**inputs, "conic": A, "position": i}, want, pts)
                        break
                else:
                    continue
                break


# ---------------------------------------------------------------------------------------------------


QUADRICS3 = [
    ("sphere", ((1, 0, 0, 0), (0, 1, 0, 0), (0, 0, 1, 0), (0, 0, 0, -1))),
    ("sphere9", ((1, 0, 0, 0), (0, 1, 0, 0), (0, 0, 1, 0), (0, 0, 0, -9))),
    ("hyperboloid1", ((1, 0, 0, 0), (0, 1, 0, 0), (0, 0, -1, 0), (0, 0, 0, -1))),
    ("hyperboloid2", ((1, 0, 0, 0), (0, -1, 0, 0), (0, 0, -1, 0), (0, 0, 0, -1))),
    ("ruled", ((0, 1, 0, 0), (1, 0, 0, 0), (0, 0, 0, 1), (0, 0, 1, 0))),
    ("generic", ((1, 1, 0, 0), (1, -1, 0, 1), (0, 0, 2, 0), (0, 1, 0, 1))),
    ("imaginary", ((1, 0, 0, 0), (0, 1, 0, 0), (0, 0, 1, 0), (0, 0, 0, 1))),
    ("cone", ((1, 0, 0, 0), (0, 1, 0, 0), (0, 0, -1, 0), (0, 0, 0, 0))),
    ("cone-shifted", ((1, 0, 0, -1), (0, 1, 0, 0), (0, 0, -1, 1), (-1, 0, 1, 0))),
    ("cylinder", ((1, 0, 0, 0), (0, 1, 0, 0), (0, 0, 0, 0), (0, 0, 0, -1))),
    ("paraboloid", ((1, 0, 0, 0), (0, 1, 0, 0), (0, 0, 0, -1), (0, 0, -1, 0))),
    ("plane-pair", ((0, 0, 0, 1), (0, 0, 0, 0), (0, 0, 0, 0), (1, 0, 0, -2))),  # x (x... ) : 2 x w - 2 w^2 -> w (x - w)
    ("plane-pair2", ((2, 1, 0, 0), (1, 0, 0, 0), (0, 0, 0, 0), (0, 0, 0, 0))),  # x (x + y)
    ("double-plane", ((1, 1, 0, 0), (1, 1, 0, 0), (0, 0, 0, 0), (0, 0, 0, 0))),  # (x + y)^2
]


def enum_quadric_line(tier, seed):
    for qi in range(len(QUADRICS3)):
        yield ("matrix", qi)
    for k in range(6):
        yield ("class", k)
    for grp in ("nondegenerate", "degenerate-mixed-reducible-and-cones", "reducible", "all"):
        yield ("collection", grp)


def lines3(tier):
    pts = JM.proj_reps(JM.A3()) if tier == "thorough" else JM.T3()
    return [(p, q) for p, q in itertools.combinations(pts, 2) if X.irank([list(p), list(q)]) == 2]


def class_quadric(G, k):
    if k == 0:
        return G.Sphere(G.Point(1, 0, -1), 3), "Sphere"
    if k == 1:
        return G.Cone(G.Point(0, 0, 0), G.Point(0, 0, 2), 1), "Cone"
    if k == 2:
        return G.Cone(G.Point(1, -1, 0), G.Point(2, 1, 2), 3), "Cone-oblique"
    if k == 3:
        return G.Cylinder(G.Point(0, 0, 0), G.Point(0, 0, 1), 2), "Cylinder"
    if k == 4:
        return G.Cylinder(G.Point(1, 0, 1), G.Point(1, 2, -2), 3), "Cylinder-oblique"
    return G.Sphere(G.Point(0, 0, 0), 0.5), "Sphere-half"


def exact_class_matrix(k):
    """Rational matrices of the class quadrics above (scaled to integers)."""
    from checks.c13 import cone_matrix, cylinder_matrix

    if k == 0:
        c, r = (1, 0, -1), 3
        A = np.eye(4)
        A[3, :3] = A[:3, 3] = [-x for x in c]
        A[3, 3] = sum(x * x for x in c) - r * r
        return A
    if k == 1:
        return cone_matrix((0, 0, 0), (0, 0, 1), 1, 2)
    if k == 2:
        return cone_matrix((1, -1, 0), (1, 2, 2), 3, 1) * 9
    if k == 3:
        return cylinder_matrix((0, 0, 0), (0, 0, 1), 2)
    if k == 4:
        return cylinder_matrix((1, 0, 1), (1, 2, -2), 3) * 9
    A = np.eye(4) * 4
    A[3, 3] = -1
    return A


@family("C14", "quadric_line_3d", enum_quadric_line)
def case_quadric_line(ctx, cfg):
    import geometer as G

    form, k = cfg
    if form == "collection":
        return _quadric_collection_lines(ctx, G, k)
    if form == "matrix":
        name, A = QUADRICS3[k]
        Q = G.Quadric(np.array(A, dtype=float))
        Ai = np.array(A, dtype=np.int64)
    else:
        Q, name = class_quadric(G, k)
        Af = exact_class_matrix(k)
        for mlt in range(1, 400):
            if np.allclose(Af * mlt, np.round(Af * mlt), atol=1e-9):
                Af = Af * mlt
                break
        assert np.allclose(Af, np.round(Af), atol=1e-9), "class quadric matrix must be integral after scaling"
        Ai = np.round(Af).astype(np.int64)
        if not proj_eq(Q.array, Ai.astype(float), 1e-9):
            ctx.fail(f"quadric-line:{name}:constructor-matrix", name, {"quadric": name}, Ai, Q.array)
            return
    for p, q in lines3(ctx.tier):
        al, be, ga = restrict(Ai.tolist(), p, q)
        if al == be == ga == 0:
            ctx.skipped += 1
            ctx.tally("line-on-quadric")
            continue
        want, D = roots_on_line(al, be, ga, p, q)
        kind = "tangent" if D == 0 else "secant-real" if D > 0 else "complex-pair"
        ctx.state((name, tuple(p), tuple(q)))
        ctx.tally(f"{name}:{kind}")
        L = G.Line(G.Point(np.array(p, dtype=float)), G.Point(np.array(q, dtype=float)))
        r, e = ctx.call(Q.intersect, L)
        ctx.trace()
        inputs = {"quadric": name, "matrix": Ai, "line_through": [p, q]}
        if e is not None:
            ctx.fail(f"quadric-line:{name}:{kind}:{type(e).__name__}", "intersect", inputs, want, e)
            return
        pts = [np.asarray(x.array) for x in r]
        tol = 1e-5 if D == 0 else 1e-7
        if not match_points(pts, want, tol):
            ctx.fail(f"quadric-line:{name}:{kind}:points", "intersect", inputs, want, pts)
            return
    # collection of lines against the single quadric
    ls = [(p, q) for p, q in lines3(ctx.tier) if restrict(Ai.tolist(), p, q) != (0, 0, 0)]
    LC = G.LineCollection(G.PointCollection(np.array([p for p, q in ls], dtype=float)), G.PointCollection(np.array([q for p, q in ls], dtype=float)))
    r, e = ctx.call(Q.intersect, LC)
    ctx.trace(len(ls))
    if e is not None or len(r) != 2:
        ctx.fail(f"quadric-line:{name}:line-collection:{type(e).__name__ if e is not None else 'count'}", "intersect", {"quadric": name}, "two point collections", e if e is not None else len(r))
        return
    for i, (p, q) in enumerate(ls):
        al, be, ga = restrict(Ai.tolist(), p, q)
        want, D = roots_on_line(al, be, ga, p, q)
        pts = [np.asarray(r[0].array[i]), np.asarray(r[1].array[i])]
        if not match_points(pts, want, 1e-5 if D == 0 else 1e-7):
            ctx.fail(f"quadric-line:{name}:line-collection:points", "intersect", {"quadric": name, "line_through": [p, q], "position": i}, want, pts)
            return


def _quadric_collection_lines(ctx, G, grp):
    names = {
        "nondegenerate": ["sphere", "sphere9", "hyperboloid1", "hyperboloid2", "ruled", "generic", "imaginary"],
        "degenerate-mixed-reducible-and-cones": ["plane-pair", "cone", "plane-pair2", "cylinder", "cone-shifted"],
        "reducible": ["plane-pair", "plane-pair2"],
        "all": [q[0] for q in QUADRICS3],
    }[grp]
    mats = [dict(QUADRICS3)[n] for n in names]
    QC = G.QuadricCollection(np.array(mats, dtype=float))
    lines = lines3(ctx.tier)[:: (1 if ctx.tier == "thorough" else 3)]
    for li, (p, q) in enumerate(lines):
        forms = [restrict([list(r) for r in A], p, q) for A in mats]
        if any(f == (0, 0, 0) for f in forms):
            ctx.skipped += 1
            continue
        ctx.state((grp, tuple(p), tuple(q)))
        L = G.Line(G.Point(np.array(p, dtype=float)), G.Point(np.array(q, dtype=float)))
        r, e = ctx.call(QC.intersect, L)
        ctx.trace(len(mats))
        inputs = {"quadrics": names, "line_through": [p, q]}
        if e is not None or len(r) != 2:
            ctx.fail(f"quadric-line:collection3d:{grp}:{type(e).__name__ if e is not None else 'count'}", "intersect", inputs, "two point collections", e if e is not None else len(r))
            return
        for i, (al, be, ga) in enumerate(forms):
            want, D = roots_on_line(al, be, ga, p, q)
            pts = [np.asarray(r[0].array[i]), np.asarray(r[1].array[i])]
            if not match_points(pts, want, 1e-5 if D == 0 else 1e-7):
                ctx.fail(f"quadric-line:collection3d:{grp}:points", "intersect", {**inputs, "quadric": names[i], "position": i}, want, pts)
                return


# ---------------------------------------------------------------------------------------------------
# tangents, polars


def enum_tangent(tier, seed):
    for ci, A in enumerate(sym3()):
        if classify_conic(A) == "nondegenerate":
            yield ("conic", ci)
    for qi in range(7):
        yield ("quadric", qi)


@family("C14", "tangent_polar", enum_tangent)
def case_tangent(ctx, cfg):
    import geometer as G

    form, k = cfg
    if form == "conic":
        A = sym3()[k]
        Ai = np.array(A, dtype=np.int64)
        C = G.Conic(Ai.astype(float))
        adj = vadj(Ai)
        P = lattice(3, 2)
        for p in P:
            pv = np.array(p, dtype=np.int64)
            on = int(pv @ Ai @ pv) == 0
            pol = Ai @ pv
            ctx.state((k, tuple(p)))
            pt = G.Point(pv.astype(float))
            inputs = {"conic": A, "at": p}
            # polar
            r, e = ctx.call(C.polar, pt)
            ctx.trace()
            if e is not None or type(r) is not G.Line or not proj_eq(r.array, pol.astype(float), 1e-10):
                ctx.fail("polar:value", "polar", inputs, pol, e if e is not None else r.array)
                return
            t, e = ctx.call(C.tangent, pt)
            ctx.trace()
            if on:
                ctx.tally("tangent-at-point-on-conic")
                if e is not None or type(t) is not G.Line or not proj_eq(t.array, pol.astype(float), 1e-10) or not incident(t.array, pv.astype(float), 1e-10):
                    ctx.fail("tangent:on-conic", "tangent", inputs, pol, e if e is not None else getattr(t, "array", t))
                    return
            else:
                ctx.tally("tangents-from-outside-point")
                if e is not None or not isinstance(t, tuple) or len(t) != 2:
                    ctx.fail(f"tangent:from-point:{type(e).__name__ if e is not None else 'shape'}", "tangent", inputs, "two lines", e if e is not None else t)
                    return
                for ln in t:
                    la = np.asarray(ln.array)
                    val = la @ adj.astype(complex) @ la
                    if not incident(la, pv.astype(float), 1e-7) or abs(val) > 1e-7 * np.linalg.norm(adj) * np.linalg.norm(la) ** 2:
                        ctx.fail("tangent:from-point:not-tangent-through-point", "tangent", inputs, "tangent line through the point", la)
                        return
                # the two tangents are the two solutions (distinct unless the point is on the conic)
                if proj_eq(t[0].array, t[1].array, 1e-9):
                    ctx.fail("tangent:from-point:coincident", "tangent", inputs, "two different tangents", [t[0].array, t[1].array])
                    return
        # points CLOSE TO the conic (2^-17 = 7.6e-6 and 2^-12 off a lattice point of it: hundreds of times the library's
        # tolerance, exactly representable): not on the conic, so two tangents through the point
        for p in P:
            pv = np.array(p, dtype=np.int64)
            if p[2] == 0 or int(pv @ Ai @ pv) != 0:
                continue
            for k_ax, step in ((0, 2.0**-17), (1, -(2.0**-17)), (0, -(2.0**-12))):
                q = pv.astype(float) / p[2]
                q[k_ax] += step
                qf = [F(float(x)) for x in q]
                val_exact = sum(F(int(Ai[i, j])) * qf[i] * qf[j] for i in range(3) for j in range(3))
                if abs(val_exact) < 1e-6:
                    # moved (nearly) along the tangent: the form value is second order in the step and within a factor 100
                    # of the library's absolute tolerance - "on the conic" is then a legitimate answer; not judged
                    ctx.tally("near-conic-point:within-100-tolerances:not-judged")
                    continue
                ctx.state((k, tuple(p), "near", k_ax, step))
                t, e = ctx.call(C.tangent, G.Point(q))
                ctx.trace()
                inputs = {"conic": A, "at": q, "off_the_conic_by": float(val_exact)}
                ok = e is None and isinstance(t, tuple) and len(t) == 2
                if ok:
                    for ln in t:
                        la = np.asarray(ln.array)
                        val = la @ adj.astype(complex) @ la
                        ok = ok and incident(la, q, 1e-7) and abs(val) <= 1e-6 * np.linalg.norm(adj) * np.linalg.norm(la) ** 2
                    ok = ok and not proj_eq(t[0].array, t[1].array, 1e-9)
                if not ok:
                    ctx.fail(f"tangent:from-point-close-to-the-conic:{type(e).__name__ if e is not None else 'value'}", "tangent", inputs, "two different tangents through the point", e if e is not None else [getattr(x, "array", x) for x in (t if isinstance(t, tuple) else (t,))])
                    return
        # pole / polar reciprocity through the library's predicates
        PC = G.PointCollection(np.array(P, dtype=float))
        for p in P[::5]:
            pol, e = ctx.call(C.polar, G.Point(np.array(p, dtype=float)))
            got, e2 = ctx.call(pol.contains, PC) if e is None else (None, e)
            exact = np.array([int(np.array(p) @ Ai @ np.array(q)) == 0 for q in P])
            ctx.trace(len(P))
            if e2 is not None or not np.array_equal(np.asarray(got), exact):
                ctx.fail("polar:reciprocity", "polar(p).contains(q)", {"conic": A, "p": p}, "p^T A q == 0", e2 if e2 is not None else "mismatch")
                return
    else:
        name, A = QUADRICS3[k]
        Ai = np.array(A, dtype=np.int64)
        Q = G.Quadric(Ai.astype(float))
        adj = vadj(Ai)
        P = JM.A3() + [(3, 0, 0, 1), (0, 3, 0, 1), (2, 1, 2, 3), (1, 2, 2, 3), (2, 2, 1, 1)]
        for p in P:
            pv = np.array(p, dtype=np.int64)
            if int(pv @ Ai @ pv) != 0:
                continue
            ctx.state((name, tuple(p)))
            ctx.tally("tangent-plane-at-point-on-quadric")
            t, e = ctx.call(Q.tangent, G.Point(pv.astype(float)))
            ctx.trace()
            want = Ai @ pv
            inputs = {"quadric": name, "at": p}
            if e is not None or type(t) is not G.Plane or not proj_eq(t.array, want.astype(float), 1e-10) or int(want @ adj @ want) != 0:
                ctx.fail("tangent:plane", "tangent", inputs, want, e if e is not None else t.array)
                return
            r, e = ctx.call(Q.is_tangent, t)
            if e is not None or not bool(r):
                ctx.fail(f"is_tangent:tangent-plane:{type(e).__name__ if e is not None else 'False'}", "is_tangent", inputs, True, e if e is not None else bool(r))
                return


# ---------------------------------------------------------------------------------------------------
# duals


def enum_dual(tier, seed):
    for ci, A in enumerate(sym3()):
        if classify_conic(A) == "nondegenerate":
            yield ("Conic", ci)
    for qi in range(7):
        yield ("Quadric", qi)
    for k in range(8):
        yield ("class", k)
    yield ("QuadricCollection", 0)
    yield ("QuadricCollection", 1)


def class_objects(G, k):
    return [
        ("Circle", lambda: G.Circle(G.Point(1, -2), 3)),
        ("Circle-default", lambda: G.Circle()),
        ("Ellipse", lambda: G.Ellipse(G.Point(0, 1), 2, 3)),
        ("Sphere", lambda: G.Sphere(G.Point(1, 0, -1), 2)),
        ("Sphere-2d", lambda: G.Sphere(G.Point(1, 2), 2)),
        ("Conic.from_points", lambda: G.Conic.from_points(G.Point(0, 0), G.Point(1, 0), G.Point(0, 1), G.Point(2, 3), G.Point(-1, 3))),
        ("Conic.dual-given", lambda: G.Conic(np.diag([1.0, 2.0, -1.0]), is_dual=True)),
        ("Quadric.dual-given", lambda: G.Quadric(np.diag([1.0, 2.0, -1.0, 3.0]), is_dual=True)),
    ][k]


@family("C14", "dual_involution", enum_dual)
def case_dual(ctx, cfg):
    import geometer as G

    form, k = cfg
    ctx.state((form, k))
    if form in ("Conic", "Quadric"):
        A = sym3()[k] if form == "Conic" else QUADRICS3[k][1]
        name = form if form == "Conic" else QUADRICS3[k][0]
        Q = getattr(G, form)(np.array(A, dtype=float))
    elif form == "class":
        name, mk = class_objects(G, k)
        Q = mk()
    else:
        if k == 0:
            mats = [A for A in sym3() if classify_conic(A) == "nondegenerate"]
        else:
            mats = [q[1] for q in QUADRICS3[:7]]
        Q = G.QuadricCollection(np.array(mats, dtype=float))
        name = f"QuadricCollection-{k}"
    ctx.tally(name if form != "Conic" else "Conic")
    inputs = {"quadric": name, "matrix": Q.array}
    d, e = ctx.call(lambda: Q.dual)
    ctx.trace()
    if e is not None:
        ctx.fail(f"dual:{type(Q).__name__}:{type(e).__name__}", "dual", inputs, "dual quadric", e)
        return
    Ainv = np.linalg.inv(np.asarray(Q.array, dtype=complex))
    ok = bool(d.is_dual) != bool(Q.is_dual) and d.array.shape == Q.array.shape
    if ok:
        a, b = np.asarray(d.array).reshape(-1, *Q.array.shape[-2:]), Ainv.reshape(-1, *Q.array.shape[-2:])
        ok = all(proj_eq(x, y, 1e-9) for x, y in zip(a, b))
    if not ok:
        ctx.fail(f"dual:{type(Q).__name__}:value", "dual", inputs, Ainv, d.array)
        return
    dd, e = ctx.call(lambda: d.dual)
    ctx.trace()
    if e is not None or bool(dd.is_dual) != bool(Q.is_dual) or not all(proj_eq(x, y, 1e-8) for x, y in zip(np.asarray(dd.array).reshape(-1, *Q.array.shape[-2:]), np.asarray(Q.array).reshape(-1, *Q.array.shape[-2:]))):
        ctx.fail(f"dual:{type(Q).__name__}:involution", "dual.dual", inputs, Q.array, e if e is not None else dd.array)
        return
    # element class of a bound quadric stays a bound quadric with the same interface (Conic stays a Conic)
    if form in ("Conic",) and not isinstance(d, G.Conic):
        ctx.fail("dual:Conic:class", "dual", inputs, "Conic", type(d).__name__)
        return
    # is_tangent(h) <=> h touches the quadric (exact: h^T adj(A) h == 0) for integer matrices
    if form in ("Conic", "Quadric"):
        Ai = np.array(A, dtype=np.int64)
        adj = vadj(Ai)
        n = len(A)
        H = lattice(3, 2) if n == 3 else JM.A3()
        HC = (G.LineCollection if n == 3 else G.PlaneCollection)(np.array(H, dtype=float))
        r, e = ctx.call(Q.is_tangent, HC)
        ctx.trace(len(H))
        exact = np.array([int(np.array(h) @ adj @ np.array(h)) == 0 for h in H])
        ctx.tally("tangent-hyperplanes", int(exact.sum()))
        if e is not None or not np.array_equal(np.asarray(r), exact):
            j = None if e is not None else int(np.argwhere(np.asarray(r) != exact)[0][0])
            ctx.fail("is_tangent:value", "is_tangent", {**inputs, "hyperplane": None if j is None else H[j]}, None if j is None else bool(exact[j]), e if e is not None else bool(np.asarray(r)[j]))
            return
        # history: a quadric derived from Q after Q has answered dual / is_tangent must answer for itself
        t = G.translation(*((1, -2) if n == 3 else (1, -2, 3)))
        for how, Q2, H2 in (("transformed", t * Q, t * HC), ("copied", Q.copy(), HC)):
            r, e = ctx.call(Q2.is_tangent, H2)
            d2, e2 = ctx.call(lambda: Q2.dual) if e is None else (None, e)
            ctx.trace(len(H))
            if e2 is not None or not np.array_equal(np.asarray(r), exact) or not proj_eq(d2.array, np.linalg.inv(Q2.array), 1e-8):
                ctx.fail(f"dual:after-queries:{how}", "is_tangent / dual of a quadric derived after queries", inputs, "answers for the derived quadric", e2 if e2 is not None else "stale")
                return
        Q3 = Q.copy()
        Q3.array = Q.array + np.eye(n) * 5
        d3, e = ctx.call(lambda: Q3.dual)
        if e is not None or not proj_eq(d3.array, np.linalg.inv(Q3.array), 1e-8):
            ctx.fail("dual:after-queries:copy-with-new-array", "dual", inputs, np.linalg.inv(Q3.array), e if e is not None else d3.array)
            return
    elif form == "QuadricCollection":
        # members, slices and iteration of the dual collection are the duals of the members: same flag, same matrix,
        # and dual is an involution on them too
        mats_ = np.asarray(Q.array)
        members = [("d[0]", lambda: d[0], 0), ("d[-1]", lambda: d[-1], len(mats_) - 1), ("next(iter(d))", lambda: next(iter(d)), 0), ("list(d)[1]", lambda: list(d)[1], 1)]
        for label, get, i in members:
            m, e = ctx.call(get)
            ctx.trace()
            bad = None
            if e is not None:
                bad = type(e).__name__
            elif not isinstance(m, G.Quadric) or not bool(m.is_dual):
                bad = "not-a-dual-quadric"
            elif not proj_eq(m.array, np.linalg.inv(mats_[i]), 1e-8):
                bad = "matrix"
            else:
                back, e2 = ctx.call(lambda: m.dual)
                if e2 is not None or bool(back.is_dual) or not proj_eq(back.array, mats_[i], 1e-8):
                    bad = "dual-of-member"
            if bad:
                ctx.fail(f"dual:collection-member:{bad}", label, inputs, "the dual of the member", e if e is not None else m)
                return
        sl, e = ctx.call(lambda: d[1:])
        ctx.trace()
        if e is not None or not bool(sl.is_dual) or sl.array.shape != mats_[1:].shape or not all(proj_eq(x, np.linalg.inv(y), 1e-8) for x, y in zip(sl.array, mats_[1:])):
            ctx.fail("dual:collection-slice", "dual[1:]", inputs, "dual quadrics of the slice", e if e is not None else sl)
            return
        back, e = ctx.call(lambda: sl.dual)
        if e is not None or bool(back.is_dual) or not all(proj_eq(x, y, 1e-8) for x, y in zip(back.array, mats_[1:])):
            ctx.fail("dual:collection-slice:involution", "dual[1:].dual", inputs, mats_[1:], e if e is not None else back.array)
            return
    elif form == "class":
        # known tangent and non-tangent hyperplanes of the class objects
        tests = {
            "Circle": [((1, 0, -4), True), ((0, 1, -1), True), ((1, 0, 0), False), ((1, 1, 0), False)],
            "Circle-default": [((1, 0, -1), True), ((0, 1, 1), True), ((1, 0, 0), False), ((3, 4, 5), True)],
            "Ellipse": [((1, 0, -2), True), ((0, 1, -4), True), ((0, 1, 2), True), ((1, 0, 0), False)],
            "Sphere": [((1, 0, 0, -3), True), ((0, 0, 1, 3), True), ((1, 0, 0, 0), False)],
            "Sphere-2d": [((1, 0, -3), True), ((0, 1, 0), True), ((1, 0, 0), False)],
        }.get(name, [])
        for h, want in tests:
            Hh = (G.Line if len(h) == 3 else G.Plane)(np.array(h, dtype=float))
            r, e = ctx.call(Q.is_tangent, Hh)
            ctx.trace()
            if e is not None or bool(r) != want:
                ctx.fail(f"is_tangent:{name}:{type(e).__name__ if e is not None else 'value'}", "is_tangent", {**inputs, "hyperplane": h}, want, e if e is not None else bool(r))
                return


# ---------------------------------------------------------------------------------------------------
# small circles / spheres far from the origin (dyadic radii, integer centres: still exactly representable)


def enum_far(tier, seed):
    for c in [(300, 400), (100, -100), (50, 20), (-64, 3), (0, 0), (5, 5)]:
        for r in (0.25, 0.5, 0.1875, 2):
            yield ("circle", c, r)
    for c in [(30, 40, 0), (10, -10, 20), (0, 0, 0)]:
        for r in (0.25, 0.5, 2):
            yield ("sphere", c, r)


@family("C14", "small_far_circles", enum_far)
def case_far(ctx, cfg):
    import geometer as G

    kind, c, r = cfg
    ctx.state((kind, tuple(c), r))
    ctx.tally("far" if max(map(abs, c)) >= 50 else "near")
    inputs = {"kind": kind, "center": c, "radius": r}
    if kind == "circle":
        Q = G.Circle(G.Point(*c), r)
        p1, p2, p3 = (c[0] + r, c[1], 1), (c[0], c[1] + r, 1), (c[0] - r, c[1], 1)
        deg, e = ctx.call(lambda: Q.is_degenerate)
        if e is not None or bool(deg):
            ctx.fail("far-circle:is_degenerate", "is_degenerate", inputs, False, e if e is not None else bool(deg))
            return
        for a, b in ((p1, p2), (p1, p3), (p2, p3)):
            L = G.Line(G.Point(np.array(a, dtype=float)), G.Point(np.array(b, dtype=float)))
            res, e = ctx.call(Q.intersect, L)
            ctx.trace()
            want = [np.array(a, dtype=complex), np.array(b, dtype=complex)]
            if e is not None or not match_points([np.asarray(x.array) for x in res], want, 1e-6):
                ctx.fail("far-circle:secant", "intersect", {**inputs, "through": [a, b]}, [a, b], e if e is not None else [x.array for x in res])
                return
        # tangent at p1 is the vertical line x = cx + r
        t, e = ctx.call(Q.tangent, G.Point(np.array(p1, dtype=float)))
        if e is not None or not proj_eq(np.asarray(getattr(t, "array", t)), np.array([1.0, 0.0, -(c[0] + r)]), 1e-6):
            ctx.fail("far-circle:tangent", "tangent", inputs, [1, 0, -(c[0] + r)], e if e is not None else getattr(t, "array", t))
            return
        # tangents from an outside point touch the circle
        out = G.Point(c[0] + 2 * r, c[1] + 3 * r)
        ts, e = ctx.call(Q.tangent, out)
        if e is not None or not isinstance(ts, tuple) or len(ts) != 2:
            ctx.fail("far-circle:tangents-from-point", "tangent", inputs, "two lines", e if e is not None else ts)
            return
        for ln in ts:
            la = np.real_if_close(np.asarray(ln.array))
            dist_c = abs(la[0] * c[0] + la[1] * c[1] + la[2]) / np.hypot(abs(la[0]), abs(la[1]))
            if abs(dist_c - r) > 1e-5 * max(1, r):
                ctx.fail("far-circle:tangents-from-point:not-tangent", "tangent", inputs, f"distance {r} from the centre", float(np.real(dist_c)))
                return
    else:
        Q = G.Sphere(G.Point(*c), r)
        deg, e = ctx.call(lambda: Q.is_degenerate)
        if e is not None or bool(deg):
            ctx.fail("far-sphere:is_degenerate", "is_degenerate", inputs, False, e if e is not None else bool(deg))
            return
        a, b = (c[0] + r, c[1], c[2], 1), (c[0], c[1], c[2] - r, 1)
        L = G.Line(G.Point(np.array(a, dtype=float)), G.Point(np.array(b, dtype=float)))
        res, e = ctx.call(Q.intersect, L)
        ctx.trace()
        if e is not None or not match_points([np.asarray(x.array) for x in res], [np.array(a, dtype=complex), np.array(b, dtype=complex)], 1e-6):
            ctx.fail("far-sphere:secant", "intersect", {**inputs, "through": [a, b]}, [a, b], e if e is not None else [x.array for x in res])


# ---------------------------------------------------------------------------------------------------
# contains(x, tol=...): the optional tolerance is the acceptance threshold for the quadratic form value, for the point
# quadric and for the dual quadric alike. Lattice points / hyperplanes in three dyadic representatives give exact form
# values; every tolerance of a ladder is judged unless it is within a factor 2 of the exact value (margin rule).

TOLS = (None, 2.0 ** -30, 2.0 ** -12, 2.0 ** -4, 3.0)


def enum_tol(tier, seed):
    conics = {
        "unit-circle": [[1, 0, 0], [0, 1, 0], [0, 0, -1]],
        "hyperbola": [[0, 1, 0], [1, 0, 0], [0, 0, -2]],
        "ellipse": [[1, 0, -1], [0, 4, 0], [-1, 0, -3]],
        "parabola": [[2, 0, 0], [0, 0, -1], [0, -1, 0]],
    }
    quads = {
        "sphere": [[1, 0, 0, 0], [0, 1, 0, 0], [0, 0, 1, 0], [0, 0, 0, -1]],
        "hyperboloid": [[1, 0, 0, 1], [0, -1, 0, 0], [0, 0, 2, 0], [1, 0, 0, -2]],
    }
    for nm, A in list(conics.items()) + list(quads.items()):
        for dual in (False, True):
            for s in (0, -5, -10) if tier == "quick" else (0, -3, -5, -8, -10, -13):
                for form in ("single", "collection"):
                    yield (nm, tuple(map(tuple, A)), dual, s, form)


@family("C14", "contains_explicit_tolerance", enum_tol)
def case_tol(ctx, cfg):
    import geometer as G

    nm, A, dual, s, form = cfg
    A = np.array(A, dtype=float)
    n = len(A)
    q = G.Conic(A) if n == 3 else G.Quadric(A)
    if dual:
        q, e = ctx.call(lambda: q.dual)
        if e is not None:
            ctx.fail("tol:dual-raises", "dual", {"quadric": nm}, "dual quadric", e)
            return
    D = np.array(q.array, dtype=float)  # the form the predicate is stated about
    vecs = [v for v in lattice(n, 2 if n == 3 else 1)]
    sc = 2.0 ** s
    mk = (lambda a: (G.Line(a) if n == 3 else G.Plane(a))) if dual else (lambda a: G.Point(a))
    mkc = (lambda a: (G.LineCollection(a) if n == 3 else G.PlaneCollection(a))) if dual else (lambda a: G.PointCollection(a))
    arrs = [np.array(v, dtype=float) * sc for v in vecs]
    vals = [float(a @ D @ a) for a in arrs]
    ctx.state(cfg)
    for tol in TOLS:
        t_eff = 1e-8 if tol is None else tol
        kw = {} if tol is None else {"tol": tol}
        if form == "single":
            got = []
            for a in arrs:
                r, e = ctx.call(lambda: q.contains(mk(a), **kw))
                ctx.trace()
                if e is not None:
                    ctx.fail(f"tol:raises:{type(e).__name__}", "contains", {"quadric": nm, "dual": dual, "x": a, "tol": tol}, "bool", e)
                    return
                got.append(bool(r))
        else:
            r, e = ctx.call(lambda: q.contains(mkc(np.array(arrs)), **kw))
            ctx.trace(len(arrs))
            if e is not None or np.shape(r) != (len(arrs),):
                ctx.fail(f"tol:collection:{type(e).__name__ if e is not None else 'shape'}", "contains", {"quadric": nm, "dual": dual, "tol": tol}, "bool array", e if e is not None else list(np.shape(r)))
                return
            got = [bool(x) for x in r]
        for a, v, g in zip(arrs, vals, got):
            if v != 0 and t_eff / 2 < abs(v) < t_eff * 2:
                ctx.skipped += 1
                continue
            want = abs(v) <= t_eff
            ctx.tally(f"{'inside' if want else 'outside'}-tolerance")
            if g != want:
                ctx.fail(f"tol:{'dual' if dual else 'point'}:{form}:{'default' if tol is None else 'explicit'}", "contains(x, tol)", {"quadric": nm, "dual": dual, "x": a, "tol": tol, "form_value": v}, want, g)
                return
