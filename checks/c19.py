"""C19: tensor arithmetic and index bookkeeping follow the array semantics (exhaustive over operand pairings and
over a grammar of numpy index expressions, with a tracer array that reveals where every result axis comes from)."""
from __future__ import annotations

import itertools

import numpy as np

from mc.compare import arr_eq, proj_eq
from mc.core import family

# ---------------------------------------------------------------------------------------------------
# arithmetic

PATTERNS = {  # name -> (shape, free, covariant tensor axes (relative), i.e. index types per axis)
    "r1_cov": ((3,), "c"),
    "r1_con": ((3,), "n"),
    "r2_cc": ((2, 3), "cc"),
    "r2_cn": ((2, 3), "cn"),
    "r2_nc": ((2, 3), "nc"),
    "r2_nn": ((2, 3), "nn"),
    "r3_ccn": ((2, 3, 2), "ccn"),
    "r3_ncn": ((2, 3, 2), "ncn"),
    "r2_fc": ((2, 3), "fc"),
    "r3_ffn": ((2, 2, 3), "ffn"),
    "r3_fcn": ((2, 3, 3), "fcn"),
}


def make_tensor(types, shape, off=0, dtype=np.int64):
    from geometer.base import Tensor

    arr = ((np.arange(int(np.prod(shape))) * 3 + off) % 7 - 3).reshape(shape).astype(dtype)
    nf = types.count("f")
    cov = [i - nf for i, t in enumerate(types) if t == "c"]
    return Tensor(arr, covariant=cov, tensor_rank=len(types) - nf)


def types_of(t):
    return "".join("c" if i in t._covariant_indices else "n" if i in t._contravariant_indices else "f" for i in range(t.rank))


LEFT = list(PATTERNS) + ["point_fin", "point_scaled", "point_inf", "point3", "pointcoll", "line2", "line3", "plane", "quadric", "transformation"]
RIGHT = ["same", "ndarray", "ndarray_b", "list", "int", "float", "complex", "np_float", "np_int", "zero_d", "bool"]
OPS = ["add", "sub", "radd", "rsub", "mul", "rmul", "truediv", "neg"]


def left_obj(G, name, variant=0):
    if name in PATTERNS:
        shape, types = PATTERNS[name]
        return make_tensor(types, shape, off=variant)
    v = variant
    if name == "point_fin":
        return G.Point(np.array([1 + v, 2, 1]))
    if name == "point_scaled":
        return G.Point(np.array([2 + 2 * v, -4, 2]))
    if name == "point_inf":
        return G.Point(np.array([1, -1 - v, 0]))
    if name == "point3":
        return G.Point(np.array([1, 2 + v, 3, -1]))
    if name == "pointcoll":
        return G.PointCollection(np.array([[1 + v, 2, 1], [2, -4, 2], [1, -1, 0], [0, 0, 1], [-3, 6, -3]]))
    if name == "line2":
        return G.Line(np.array([1, 2 + v, 3]))
    if name == "line3":
        return G.Line(G.Point(1, 2, 3), G.Point(0, 1 + v, 1))
    if name == "plane":
        return G.Plane(np.array([1, 0, 2 + v, -1]))
    if name == "quadric":
        return G.Conic(np.array([[1, 0, 2], [0, -1 - v, 0], [2, 0, 3]]))
    if name == "transformation":
        return G.Transformation(np.array([[1, 2, 0], [0, 1, 3 + v], [0, 0, 1]]))
    raise KeyError(name)


def right_obj(G, lname, kind, t):
    if kind == "same":
        return left_obj(G, lname, variant=2)
    if kind == "pfin":
        return G.Point(np.array([-6, -10, -2]))
    if kind == "pinf":
        return G.Point(np.array([2, 1, 0]))
    if kind == "pcoll":
        return G.PointCollection(np.array([[1, 1, 0], [0, 2, 1], [3, -1, 2], [1, 0, 0], [2, 2, 0]]))
    if kind == "ndarray":
        return (np.arange(t.array.size).reshape(t.array.shape) % 5) - 2
    if kind == "ndarray_b":
        return np.arange(t.array.shape[-1]) + 1
    if kind == "list":
        return ((np.arange(t.array.size).reshape(t.array.shape) % 4) + 1).tolist()
    return {"int": 2, "float": 0.5, "complex": 1 + 2j, "np_float": np.float64(4.0), "np_int": np.int64(-2), "zero_d": np.array(4), "bool": True}[kind]


def enum_arith(tier, seed):
    for l in LEFT:
        for r in RIGHT:
            for op in OPS:
                for form in ("operator", "ufunc"):
                    yield (l, r, op, form)
    # point (op) point with DIFFERENT finiteness on the two sides: direction - finite point, finite - direction, and
    # collections whose finite / infinite positions do not line up ("same" only pairs finite with finite, direction with direction)
    for l in ("point_fin", "point_scaled", "point_inf", "pointcoll"):
        for r in ("pfin", "pinf", "pcoll"):
            for op in ("add", "sub"):
                for form in ("operator", "ufunc"):
                    yield (l, r, op, form)


def affine(a):
    a = np.asarray(a, dtype=complex)
    w = a[..., -1:]
    fin = w != 0
    x = np.where(fin, a[..., :-1] / np.where(fin, w, 1), a[..., :-1])
    return x, fin


@family("C19", "arithmetic", enum_arith)
def case_arith(ctx, cfg):
    import geometer as G
    from geometer.base import Tensor
    from geometer.point import PointLikeTensor

    lname, rkind, op, form = cfg
    scalar_kind = rkind in ("int", "float", "complex", "np_float", "np_int", "zero_d", "bool")
    if op in ("mul", "rmul", "truediv") and not scalar_kind:
        return  # t*x with a tensor/array x is a contraction (C05), not elementwise arithmetic
    if op == "neg" and rkind != "same":
        return
    t = left_obj(G, lname)
    x = right_obj(G, lname, rkind, t)
    tcopy = t.array.copy()
    pointlike = isinstance(t, PointLikeTensor)
    xa = x.array if isinstance(x, Tensor) else np.asarray(x)
    if pointlike and op == "rsub" and not isinstance(x, Tensor):
        ctx.skipped += 1  # array - point: the statement's two clauses disagree; not judged (DESIGN 8)
        return
    if rkind == "same" and op in ("radd", "rsub"):
        return  # same as add/sub with swapped roles
    ctx.state(cfg)
    ctx.tally(f"{'point' if pointlike else 'tensor'}:{op}:{'scalar' if scalar_kind else rkind}")

    fn = {
        ("add", "operator"): lambda: t + x,
        ("sub", "operator"): lambda: t - x,
        ("radd", "operator"): lambda: x + t,
        ("rsub", "operator"): lambda: x - t,
        ("mul", "operator"): lambda: t * x,
        ("rmul", "operator"): lambda: x * t,
        ("truediv", "operator"): lambda: t / x,
        ("neg", "operator"): lambda: -t,
        ("add", "ufunc"): lambda: np.add(t, x),
        ("sub", "ufunc"): lambda: np.subtract(t, x),
        ("radd", "ufunc"): lambda: np.add(x, t),
        ("rsub", "ufunc"): lambda: np.subtract(x, t),
        ("mul", "ufunc"): lambda: np.multiply(t, x),
        ("rmul", "ufunc"): lambda: np.multiply(x, t),
        ("truediv", "ufunc"): lambda: np.true_divide(t, x),
        ("neg", "ufunc"): lambda: np.negative(t),
    }[(op, form)]
    if form == "ufunc" and isinstance(x, list):
        return  # np.add(tensor, list) converts the list first; same path as ndarray
    if form == "operator" and op in ("radd", "rsub", "rmul") and isinstance(x, (np.ndarray, np.generic)) and not scalar_kind:
        pass  # ndarray.__add__(tensor) goes through __array_ufunc__: that is exactly the dispatch under test
    res, e = ctx.call(fn)
    ctx.trace()
    inputs = {"left": lname, "left_array": tcopy, "right_kind": rkind, "right": xa, "op": op, "form": form}
    if e is not None:
        ctx.fail(f"arith:{op}:{'point' if pointlike else 'tensor'}:{type(e).__name__}", op, inputs, "a result", e)
        return
    if not np.array_equal(t.array, tcopy):
        ctx.fail(f"arith:{op}:operand-modified", op, inputs, tcopy, t.array)
        return
    sign = -1 if op in ("sub",) else 1
    # --- affine point arithmetic
    if pointlike and (isinstance(x, PointLikeTensor) or op in ("mul", "rmul", "truediv", "neg")):
        a, afin = affine(t.array)
        if op in ("add", "sub"):
            b, bfin = affine(x.array)
            want_xy = a + sign * b
            fin = afin | bfin
        elif op == "neg":
            want_xy, fin = -a, afin
        elif op == "truediv":
            want_xy, fin = a / complex(x), afin
        else:
            want_xy, fin = a * complex(x), afin
        want = np.concatenate([want_xy, fin.astype(complex) * np.ones_like(want_xy[..., :1])], axis=-1)
        if not isinstance(res, G.point.PointTensor) or res.array.shape != want.shape:
            ctx.fail(f"arith:{op}:point:result-type", op, inputs, "point(s)", f"{type(res).__name__} {getattr(res, 'shape', None)}")
            return
        got = res.array.reshape(-1, want.shape[-1])
        w2 = want.reshape(-1, want.shape[-1])
        for k in range(len(w2)):
            if not np.any(w2[k]):
                continue  # direction minus itself: the zero vector has no projective meaning
            if not proj_eq(got[k], w2[k], 1e-12):
                ctx.fail(f"arith:{op}:point:affine-value", op, {**inputs, "position": k}, w2[k], got[k])
                return
        return
    # --- elementwise array arithmetic with the index types of t
    ta = t.array
    with np.errstate(all="ignore"):
        want = {
            "add": lambda: ta + xa,
            "radd": lambda: xa + ta,
            "sub": lambda: ta - xa,
            "rsub": lambda: xa - ta,
            "mul": lambda: ta * xa,
            "rmul": lambda: xa * ta,
            "truediv": lambda: ta / xa,
            "neg": lambda: -ta,
        }[op]()
    kindtag = "point" if pointlike else ("tensor" if lname in PATTERNS else lname)
    rtag = "scalar" if scalar_kind else ("tensor" if rkind == "same" else "array")
    if not isinstance(res, Tensor):
        ctx.fail(f"arith:{op}:{kindtag}:{rtag}:result-type", op, inputs, "Tensor", type(res).__name__)
        return
    if res.array.shape != want.shape or not arr_eq(res.array, want, 1e-12, 1e-12):
        ctx.fail(f"arith:{op}:{kindtag}:{rtag}:value", op, inputs, want, res.array)
        return
    if types_of(res) != types_of(t):
        ctx.fail(f"arith:{op}:{kindtag}:{rtag}:index-types:{'free-axes' if 'f' in types_of(t) else 'bound'}", op, inputs, types_of(t), types_of(res))


# ---------------------------------------------------------------------------------------------------
# indexing: grammar of index expressions x index-type patterns, tracer oracle


def index_items(n_axis_len):
    return None


ITEMS = ["0", "-1", ":", "::-1", "0:2", "None", "...", "list", "arr2d", "bool", "bool2d", "np_int", "1:"]


def make_item(name, length, next_length=None):
    if name == "0":
        return 0
    if name == "-1":
        return -1
    if name == ":":
        return slice(None)
    if name == "::-1":
        return slice(None, None, -1)
    if name == "0:2":
        return slice(0, 2)
    if name == "1:":
        return slice(1, None)
    if name == "None":
        return None
    if name == "...":
        return Ellipsis
    if name == "list":
        return [0, length - 1]
    if name == "arr2d":
        return np.array([[0, 1], [length - 1, 0], [1, 1]])
    if name == "bool":
        m = np.zeros(length, dtype=bool)
        m[[0, length - 1]] = True
        return m
    if name == "bool2d":
        if next_length is None:
            return "invalid"
        m = np.zeros((length, next_length), dtype=bool)
        m[0, 1] = m[1, 0] = m[length - 1, next_length - 1] = True
        return m
    if name == "np_int":
        return np.int64(1)
    raise KeyError(name)


def consumes(name):
    return {"None": 0, "...": 0, "bool2d": 2}.get(name, 1)


def enum_index(tier, seed):
    shapes = [(3, 4, 5)] if tier == "quick" else [(3, 4, 5), (2, 3, 4, 5)]
    for shape in shapes:
        rank = len(shape)
        maxlen = rank + 1 if tier == "quick" else rank + 2
        pats = all_patterns(rank) if tier == "thorough" else ["ccc", "nnn", "fcn", "ffc", "cnc", "fnn", "ncn"]
        if tier == "quick":
            pats = [p for p in pats if len(p) == rank]
        for L in range(0, maxlen + 1):
            for expr in itertools.product(ITEMS, repeat=L):
                if sum(1 for x in expr if x == "...") > 1:
                    continue
                yield (shape, expr, tuple(pats))


def all_patterns(rank):
    out = []
    for nf in range(0, rank):
        for rest in itertools.product("cn", repeat=rank - nf):
            out.append("f" * nf + "".join(rest))
    return out


def build_index(expr, shape):
    """Instantiate the symbolic expression for a concrete shape; returns (index tuple, list of (item name, consumed axes))
    or None when the expression cannot be laid out (too many axes consumed)."""
    n_cons = sum(consumes(x) for x in expr)
    rank = len(shape)
    if n_cons > rank:
        return None
    # axes consumed before/after the ellipsis
    ax = 0
    idx, plan = [], []
    ell_span = rank - n_cons if "..." in expr else 0
    for name in expr:
        if name == "...":
            idx.append(Ellipsis)
            plan.append(("...", list(range(ax, ax + ell_span))))
            ax += ell_span
            continue
        c = consumes(name)
        if name == "bool2d":
            item = make_item(name, shape[ax], shape[ax + 1])
        elif c == 1:
            item = make_item(name, shape[ax])
        else:
            item = make_item(name, 0)
        idx.append(item)
        plan.append((name, list(range(ax, ax + c))))
        ax += c
    if "..." not in expr and ax < rank:
        plan.append(("implicit", list(range(ax, rank))))
    return tuple(idx), plan


def predicted_provenance(plan, idx):
    """numpy's rule, written down once and then CHECKED against numpy's actual result by the tracer:
    returns a list over result axes: source axis number for kept axes, None for new / advanced axes."""
    adv_names = {"list", "arr2d", "bool", "bool2d"}
    int_names = {"0", "-1", "np_int"}
    has_array = any(name in adv_names for name, _ in plan)
    entries = []  # per index item: ('keep', axis) / ('new',) / ('adv', item) / ('int',)
    for (name, axes), item in zip(plan, list(idx) + [None] * (len(plan) - len(idx))):
        if name in ("...", "implicit"):
            entries += [("keep", a) for a in axes] or [("sep",)]  # an empty Ellipsis still separates advanced indices
        elif name == "None":
            entries.append(("new",))
        elif name in int_names:
            entries.append(("advint",) if has_array else ("int",))
        elif name in adv_names:
            entries.append(("adv", item))
        else:
            entries.append(("keep", axes[0]))
    if not has_array:
        out = []
        for en in entries:
            if en[0] == "keep":
                out.append(en[1])
            elif en[0] == "new":
                out.append(None)
        return out
    # broadcast shape of all advanced indices (integers are 0-d advanced indices)
    shapes = []
    for en in entries:
        if en[0] == "adv":
            it = np.asarray(en[1])
            shapes.append(np.nonzero(it)[0].shape if it.dtype == bool else it.shape)
        elif en[0] == "advint":
            shapes.append(())
    bshape = np.broadcast_shapes(*shapes)
    pos = [k for k, en in enumerate(entries) if en[0] in ("adv", "advint")]
    adjacent = pos == list(range(pos[0], pos[-1] + 1))
    rest_before, rest_after = [], []
    for k, en in enumerate(entries):
        if en[0] == "keep":
            (rest_before if k < pos[0] else rest_after).append(en[1])
        elif en[0] == "new":
            (rest_before if k < pos[0] else rest_after).append(None)
    if adjacent:
        return rest_before + [None] * len(bshape) + rest_after
    return [None] * len(bshape) + rest_before + rest_after


ARR = ("list", "arr2d", "bool", "bool2d")
INT = ("0", "-1", "np_int")


def index_class(expr):
    """Syntactic class of an index expression (used in violation signatures, so that a known finding about one class
    never hides a violation in another)."""
    pos = [k for k, n in enumerate(expr) if n in ARR]
    if not pos:
        return "basic"
    parts = []
    if "bool2d" in expr:
        parts.append("multi-axis-mask")
    if any(n in INT for n in expr):
        parts.append("int+array")
    between = [expr[k] for k in range(pos[0], pos[-1] + 1) if k not in pos]
    if any(n in ("None", "...") for n in between):
        parts.append("arrays-separated-by-None-or-Ellipsis")
    elif any(n in INT for n in between):
        pass  # already int+array
    elif between:
        parts.append("arrays-separated-by-slice")
    if any(n == "None" for n in expr[: pos[0]]):
        parts.append("None-before-array")
    if not parts:
        parts.append("one-array" if len(pos) == 1 else "adjacent-arrays")
    return "+".join(parts)


def pinned_mapping(idx, shape):
    """Replica of geometer/base.py:_get_index_mapping AS PINNED (with its position/axis confusion), used only to tell the
    recorded known finding (observed == this prediction) from any other deviation in the same syntactic class."""
    items = list(idx)
    n_none = sum(1 for i in items if i is None)
    if any(i is Ellipsis for i in items):
        loc = next(k for k, i in enumerate(items) if i is Ellipsis)
        extra = len(shape) - (len(items) - n_none - 1)
        items = items[:loc] + [slice(None)] * extra + items[loc + 1 :]
    n_sliced = 0
    for i in items:
        if hasattr(i, "ndim") and i.ndim >= 1:
            n_sliced += i.ndim
        elif i is None:
            continue
        else:
            n_sliced += 1
    items = items + [slice(None)] * (len(shape) - n_sliced)
    norm = []
    for i in items:
        if i is None or isinstance(i, slice):
            norm.append(i)
        elif isinstance(i, (int, np.integer)):
            norm.append(int(i))
        else:
            a = np.asanyarray(i)
            if a.dtype == bool:
                nz = np.nonzero(a)
                a = np.asanyarray(nz[0] if len(nz) == 1 else nz)
            norm.append(a)
    mapping = list(range(len(shape)))
    adv = []
    i = 0
    for ind in norm:
        if isinstance(ind, int):
            mapping.pop(i)
            continue
        if ind is None:
            mapping.insert(i, None)
        elif isinstance(ind, np.ndarray):
            adv.append(i)
        i += 1
    if not adv:
        return mapping
    b = np.broadcast(*[norm[k] for k in adv])
    a0, a1 = adv[0], adv[-1]
    if adv != list(range(a0, a1 + 1)):
        for k in adv:
            mapping.remove(k)
        return [None] * b.ndim + mapping
    return mapping[:a0] + [None] * b.ndim + mapping[a1 + 1 :]


def pinned_types(idx, shape, pat, nres):
    try:
        m = pinned_mapping(idx, shape)
    except (ValueError, IndexError) as e:
        return type(e).__name__
    return "".join((pat[m[k]] if k < len(m) and m[k] is not None else "f") for k in range(nres))


def tracer_check(src, res, prov):
    """Consistency of the predicted provenance with what numpy really returned: along a kept result axis exactly the
    predicted source coordinate varies; along a new/advanced axis no kept source axis varies."""
    if res.ndim != len(prov):
        return False
    coords = np.stack(np.unravel_index(res, src.shape), axis=0)  # (rank, *res.shape)
    kept = [p for p in prov if p is not None]
    for k, p in enumerate(prov):
        if res.shape[k] < 2:
            continue
        d = np.diff(coords, axis=k + 1)
        varying = {a for a in range(src.ndim) if np.any(d[a] != 0)}
        if p is not None:
            if varying != {p}:
                return False
        elif varying & set(kept):
            return False
    return True


@family("C19", "getitem", enum_index)
def case_index(ctx, cfg):
    shape, expr, pats = cfg
    shape = tuple(shape)
    built = build_index(expr, shape)
    if built is None:
        ctx.skipped += 1
        return
    idx, plan = built
    if any(isinstance(i, str) for i in idx):
        ctx.skipped += 1
        return
    index = idx[0] if len(idx) == 1 and expr[0] not in ("list",) else idx
    if len(idx) == 0:
        index = ()
    src = np.arange(int(np.prod(shape))).reshape(shape)
    try:
        want = src[index]
    except (IndexError, ValueError):
        ctx.tally("numpy-rejects")
        ctx.skipped += 1
        return
    scalar = isinstance(want, np.generic)
    prov = None
    if not scalar:
        prov = predicted_provenance(plan, idx)
        assert tracer_check(src, want, prov), f"provenance oracle disagrees with numpy for {expr}: {prov} shape {want.shape}"
    cls = index_class(expr)
    ctx.tally(f"class:{cls}")
    for pat in pats:
        if len(pat) != len(shape):
            continue
        t = make_tensor(pat, shape)
        t.array = src.copy()
        ctx.state((shape, expr, pat))
        res, e = ctx.call(lambda: t[index])
        ctx.trace()
        inputs = {"shape": shape, "index": list(expr), "index_types": pat}
        if e is not None:
            pin = pinned_types(idx, shape, pat, 0 if scalar else want.ndim)
            tag = ":pinned-mapping" if pin == type(e).__name__ else ""
            ctx.fail(f"getitem:{cls}:{type(e).__name__}{tag}", "__getitem__", inputs, want, e)
            continue
        if scalar:
            if not isinstance(res, np.generic) or res != want:
                ctx.fail(f"getitem:{cls}:scalar", "__getitem__", inputs, want, res)
                continue
            continue
        if not hasattr(res, "array") or res.array.shape != want.shape or not np.array_equal(res.array, want):
            ctx.fail(f"getitem:{cls}:value", "__getitem__", inputs, want, getattr(res, "array", res))
            continue
        want_types = "".join("f" if p is None else pat[p] for p in prov)
        if types_of(res) != want_types:
            tag = ":pinned-mapping" if pinned_types(idx, shape, pat, want.ndim) == types_of(res) else ""
            ctx.fail(f"getitem:{cls}:index-types{tag}", "__getitem__", inputs, want_types, types_of(res))
            continue
        if not np.array_equal(t.array, src):
            ctx.fail(f"getitem:{cls}:operand-modified", "__getitem__", inputs, "unchanged", "changed")
            continue


# ---------------------------------------------------------------------------------------------------
# transpose, expand_dims, copy, tensor_product types


def enum_struct(tier, seed):
    for rank in (1, 2, 3, 4):
        for pat in itertools.product("cn", repeat=rank):
            pat = "".join(pat)
            yield ("transpose_default", pat)
            for perm in itertools.permutations(range(rank)):
                yield ("transpose_full", pat, perm)
            for L in range(2, rank):
                for cyc in itertools.permutations(range(rank), L):
                    yield ("transpose_cycle", pat, cyc)
    for pat in ["fc", "fn", "ffc", "fcn", "fnc", "ffcn", "fcc", "fnn", "fccn"]:
        yield ("transpose_default", pat)
        nf = pat.count("f")
        for perm in itertools.permutations(range(nf, len(pat))):
            yield ("transpose_full", pat, tuple(range(nf)) + perm)
        for ax in range(-len(pat) - 1, len(pat) + 1):
            yield ("expand_dims", pat, ax)
        yield ("copy", pat)
    for pat in ["c", "cn", "ncn"]:
        yield ("copy", pat)
    for obj in ["point", "pointcoll", "line3", "linecoll", "planecoll", "quadric", "quadriccoll", "transformation", "transformationcoll", "segment", "polygon"]:
        yield ("copy_obj", obj)
        for ax in (-4, -3, -2, -1, 0, 1, 2, 3):
            yield ("expand_dims_obj", obj, ax)


DIMS = (2, 3, 4, 5)


@family("C19", "transpose_expand_copy", enum_struct)
def case_struct(ctx, cfg):
    import geometer as G
    from geometer.base import Tensor, TensorCollection

    kind = cfg[0]
    ctx.state(cfg)
    ctx.tally(kind)
    if kind.startswith("transpose"):
        pat = cfg[1]
        shape = DIMS[: len(pat)]
        t = make_tensor(pat, shape)
        t.array = np.arange(int(np.prod(shape))).reshape(shape)
        nf = pat.count("f")
        if kind == "transpose_default":
            res, e = ctx.call(t.transpose)
            allowed = [tuple(range(nf)) + tuple(reversed(range(nf, len(pat))))]
            res2, e2 = ctx.call(lambda: t.T)
        elif kind == "transpose_full":
            perm = tuple(cfg[2])
            res, e = ctx.call(t.transpose, perm)
            allowed = [perm]
            res2, e2 = res, e
        else:
            cyc = tuple(cfg[2])
            res, e = ctx.call(t.transpose, cyc)
            sigma = list(range(len(pat)))
            for k, a in enumerate(cyc):
                sigma[a] = cyc[(k + 1) % len(cyc)]
            inv = [sigma.index(i) for i in range(len(pat))]
            allowed = [tuple(sigma), tuple(inv)]  # either reading of "cycle notation"; types must follow the array
            res2, e2 = res, e
        ctx.trace()
        inputs = {"index_types": pat, "perm": cfg[2] if len(cfg) > 2 else None}
        for r, ex in ((res, e), (res2, e2)):
            if ex is not None:
                ctx.fail(f"{kind}:{type(ex).__name__}", "transpose", inputs, "tensor", ex)
                return
            # which permutation of the array axes happened (dims are pairwise different, so the shape tells)
            P = tuple(shape.index(s) for s in r.array.shape) if sorted(r.array.shape) == sorted(shape) else None
            if P is None or not np.array_equal(r.array, t.array.transpose(P)) or P not in allowed:
                ctx.fail(f"{kind}:array-permutation", "transpose", inputs, allowed, P)
                return
            want_types = "".join(pat[P[i]] for i in range(len(pat)))
            if types_of(r) != want_types:
                ctx.fail(f"{kind}:index-types", "transpose", inputs, want_types, types_of(r))
                return
    elif kind == "expand_dims":
        pat, ax = cfg[1], cfg[2]
        shape = DIMS[: len(pat)]
        nf = pat.count("f")
        cov = [i - nf for i, c in enumerate(pat) if c == "c"]
        arr = np.arange(int(np.prod(shape))).reshape(shape)
        t = TensorCollection(arr, covariant=cov, tensor_rank=len(pat) - nf)
        res, e = ctx.call(t.expand_dims, ax)
        ctx.trace()
        pos = ax if ax >= 0 else ax + len(pat) + 1
        valid = -len(pat) - 1 <= ax <= len(pat) and 0 <= pos <= nf
        inputs = {"index_types": pat, "axis": ax}
        if not valid:
            if e is None:
                # an axis outside the collection part must not silently produce wrongly typed tensors
                want_types = None
                if 0 <= pos <= len(pat):
                    ctx.fail("expand_dims:invalid-axis-accepted", "expand_dims", inputs, "ValueError / IndexError", types_of(res))
            return
        if e is not None:
            ctx.fail(f"expand_dims:{type(e).__name__}", "expand_dims", inputs, "tensor", e)
            return
        want = np.expand_dims(arr, pos)
        want_types = pat[:pos] + "f" + pat[pos:]
        if res.array.shape != want.shape or not np.array_equal(res.array, want) or types_of(res) != want_types or type(res) is not type(t):
            ctx.fail("expand_dims:value-or-types", "expand_dims", inputs, want_types, types_of(res))
    elif kind == "copy":
        pat = cfg[1]
        shape = DIMS[: len(pat)]
        t = make_tensor(pat, shape)
        res, e = ctx.call(t.copy)
        ctx.trace()
        if e is not None or type(res) is not type(t) or not np.array_equal(res.array, t.array) or types_of(res) != pat or res is t:
            ctx.fail("copy:value-or-types", "copy", {"index_types": pat}, pat, e if e is not None else types_of(res))
    else:
        obj = _struct_obj(G, cfg[1])
        if kind == "copy_obj":
            res, e = ctx.call(obj.copy)
            ctx.trace()
            bad = e is not None or type(res) is not type(obj) or not np.array_equal(res.array, obj.array) or types_of(res) != types_of(obj) or res is obj
            if not bad:
                for attr in ("is_dual", "pdim"):
                    if hasattr(obj, attr) and getattr(res, attr, None) != getattr(obj, attr):
                        bad = True
            if bad:
                ctx.fail("copy:object", "copy", {"object": cfg[1]}, type(obj).__name__, e if e is not None else type(res).__name__)
        else:
            ax = cfg[2]
            if not isinstance(obj, TensorCollection):
                return
            pat = types_of(obj)
            nf = pat.count("f")
            pos = ax if ax >= 0 else ax + len(pat) + 1
            res, e = ctx.call(obj.expand_dims, ax)
            ctx.trace()
            valid = -len(pat) - 1 <= ax <= len(pat) and 0 <= pos <= nf
            if hasattr(obj, "pdim"):
                valid = valid and pos <= nf - max(obj.pdim - 1, 1) - (0)  # new axis must stay in front of the vertex axes
            inputs = {"object": cfg[1], "index_types": pat, "axis": ax}
            if not valid:
                return
            if e is not None:
                ctx.fail(f"expand_dims:object:{type(e).__name__}", "expand_dims", inputs, "collection", e)
                return
            want = np.expand_dims(obj.array, pos)
            want_types = pat[:pos] + "f" + pat[pos:]
            if res.array.shape != want.shape or not np.array_equal(res.array, want) or types_of(res) != want_types or type(res) is not type(obj):
                ctx.fail("expand_dims:object:value-or-types", "expand_dims", inputs, want_types, types_of(res))
                return
            if hasattr(obj, "_line") and obj._line is not None:
                wl = np.expand_dims(obj._line.array, pos)
                if res._line.array.shape != wl.shape or not np.array_equal(res._line.array, wl):
                    ctx.fail("expand_dims:object:cached-line", "expand_dims", inputs, list(wl.shape), list(res._line.array.shape))


def _struct_obj(G, name):
    if name == "point":
        return G.Point(1, 2)
    if name == "pointcoll":
        return G.PointCollection(np.arange(24).reshape(2, 3, 4) % 5 + 1)
    if name == "line3":
        return G.Line(G.Point(1, 2, 3), G.Point(0, 1, 1))
    if name == "linecoll":
        return G.LineCollection(G.PointCollection(np.arange(24).reshape(2, 3, 4) % 5 + 1), G.PointCollection(np.arange(24).reshape(2, 3, 4) % 7 + 2))
    if name == "planecoll":
        return G.PlaneCollection(np.arange(24).reshape(2, 3, 4) % 5 + 1)
    if name == "quadric":
        return G.Quadric(np.eye(4), is_dual=True)
    if name == "quadriccoll":
        return G.QuadricCollection(np.stack([np.eye(3), np.diag([1, 2, -1])]), is_dual=True)
    if name == "transformation":
        return G.rotation(0.3)
    if name == "transformationcoll":
        return G.TransformationCollection(np.stack([np.eye(3), np.diag([1, 2, 1])]))
    if name == "segment":
        return G.SegmentCollection(G.PointCollection(np.array([[0, 0, 1], [1, 1, 1], [2, 0, 1]])), G.PointCollection(np.array([[1, 0, 1], [1, 3, 1], [2, 5, 1]])))
    if name == "polygon":
        return G.Polygon(G.Point(0, 0), G.Point(1, 0), G.Point(0, 1))
    raise KeyError(name)


# ---------------------------------------------------------------------------------------------------
# item assignment between two uses of the same object: t[index] = value is numpy's assignment on the array, and every later
# operation sees the new entries (compared with an object that received the same assignment before its first use)


def _assignments(shape):
    """(label, index, value) for an array of the given shape (integer values, so every dtype can hold them)."""
    out = [("first-entry", (0,) * len(shape), 5), ("last-entry", tuple(s - 1 for s in shape), -4)]
    if len(shape) >= 2:
        out.append(("first-row", 0, (np.arange(int(np.prod(shape[1:]))).reshape(shape[1:]) % 3 + 2)))
        out.append(("last-column", (Ellipsis, -1), 3))
    else:
        out.append(("slice", slice(0, 2), 6))
    return out


def enum_setitem(tier, seed):
    for l in LEFT:
        for use in ("add-same", "sub-same", "mul-int", "neg", "eq-same", "normalized_array", "getitem"):
            yield (l, use)


@family("C19", "setitem_then_use", enum_setitem)
def case_setitem(ctx, cfg):
    import geometer as G
    from geometer.point import PointLikeTensor

    lname, use = cfg
    probe = left_obj(G, lname)
    if use == "normalized_array" and not isinstance(probe, PointLikeTensor):
        return

    def apply(t):
        x = left_obj(G, lname, variant=2)
        if use == "add-same":
            return t + x
        if use == "sub-same":
            return t - x
        if use == "mul-int":
            return t * 2
        if use == "neg":
            return -t
        if use == "eq-same":
            return t == x
        if use == "normalized_array":
            return t.normalized_array
        return t[..., 0]

    def value_of(r):
        return np.asarray(r.array) if hasattr(r, "array") else np.asarray(r)

    for label, idx, val in _assignments(probe.array.shape):
        ctx.state((lname, use, label))
        t = left_obj(G, lname)
        before = t.array.copy()
        r1, e1 = ctx.call(apply, t)  # first use
        _, e = ctx.call(t.__setitem__, idx, val)
        ctx.trace(2)
        inputs = {"left": lname, "use": use, "assignment": label, "array_before": before}
        want_arr = before.copy()
        want_arr[idx] = val
        if e is not None or not np.array_equal(t.array, want_arr):
            ctx.fail(f"setitem:{'raises' if e is not None else 'array'}", "__setitem__", inputs, want_arr, e if e is not None else t.array)
            return
        r2, e2 = ctx.call(apply, t)  # second use, after the assignment
        f = left_obj(G, lname)
        f[idx] = val
        rf, ef = ctx.call(apply, f)  # the same state without the earlier use
        ctx.trace(2)
        if (e2 is None) != (ef is None):
            ctx.fail("setitem-then-use:exception-differs", use, inputs, repr(ef), repr(e2))
            return
        if e2 is not None:
            continue
        a2, af = value_of(r2), value_of(rf)
        if a2.shape != af.shape or not arr_eq(a2, af) or (hasattr(r2, "array") and hasattr(rf, "array") and types_of(r2) != types_of(rf)):
            ctx.fail(f"setitem-then-use:{use}:stale", use, inputs, af, a2)
            return


# ---------------------------------------------------------------------------------------------------
# A scalar boolean in an index (Python True, np.True_): numpy treats it as a 0-d advanced index that consumes no axis and
# inserts an axis of length 1 at its position. Every expression of at most three basic items (slices, None, Ellipsis) with one
# scalar bool at every position x every index-type pattern; the values are numpy's, the inserted axis is a collection axis
# and every surviving axis keeps its type. (Integers are left out here: next to a bool they become advanced indices, and that
# interplay is what the main grammar's list / mask items already cover.)

SB_ITEMS = [":", "0:2", "1:", "::-1", "None", "..."]


def enum_scalar_bool(tier, seed):
    pats = ["ccc", "nnn", "fcn", "ffc", "cnc", "fnn", "ncn"] if tier == "quick" else all_patterns(3)
    pats = [p for p in pats if len(p) == 3]
    for L in range(0, 4 if tier == "thorough" else 3):
        for expr in itertools.product(SB_ITEMS, repeat=L):
            if sum(1 for x in expr if x == "...") > 1:
                continue
            for pos in range(L + 1):
                for flavour in ("py", "np"):
                    yield (expr, pos, flavour, tuple(pats))


@family("C19", "scalar_bool_index", enum_scalar_bool)
def case_scalar_bool(ctx, cfg):
    expr, pos, flavour, pats = cfg
    shape = (3, 4, 5)
    cons = sum(1 for x in expr if x not in ("None", "..."))
    if cons > len(shape):
        return
    items = [make_item(x, 3) for x in expr]  # the slices used here do not depend on the axis length
    b = True if flavour == "py" else np.True_
    idx = tuple(items[:pos] + [b] + items[pos:])
    # predicted types: walk the items
    ell_span = len(shape) - cons if "..." in expr else 0
    for pat in pats:
        ctx.state((expr, pos, flavour, pat))
        t = make_tensor(pat, shape)
        want_arr = t.array[idx]
        ax, types = 0, []
        for k, name in enumerate(list(expr[:pos]) + ["BOOL"] + list(expr[pos:])):
            if name == "BOOL" or name == "None":
                types.append("f")
            elif name == "...":
                types += list(pat[ax : ax + ell_span])
                ax += ell_span
            else:
                types.append(pat[ax])
                ax += 1
        types += list(pat[ax:])
        want_types = "".join(types)
        assert len(want_types) == want_arr.ndim, ("scalar-bool oracle broken", expr, pos, want_types, want_arr.shape)
        res, e = ctx.call(lambda: t[idx])
        ctx.trace()
        inputs = {"index_types": pat, "expression": list(expr), "bool_position": pos, "bool_kind": flavour}
        if e is not None:
            ctx.fail(f"scalar-bool:{type(e).__name__}", "getitem", inputs, "a tensor", e)
            return
        if not hasattr(res, "array") or res.array.shape != want_arr.shape or not np.array_equal(res.array, want_arr):
            ctx.fail("scalar-bool:values", "getitem", inputs, want_arr.shape, getattr(res, "shape", res))
            return
        got = types_of(res)
        ctx.tally("types-checked")
        if got != want_types:
            ctx.fail(f"scalar-bool:types:{flavour}", "getitem", inputs, want_types, got)
            return
