"""C08: transformation constructors realise their Euclidean / projective definition (all lattice offsets, axes in all
octants, all lattice mirrors, all 4-point frames of the 3x3 lattice, ...)."""
from __future__ import annotations

import itertools
import math
from fractions import Fraction as F

import numpy as np

from mc import exact as X
from mc.compare import proj_eq
from mc.core import family, lattice

ANGLES = [k * math.pi / 12 for k in range(-12, 13)] + [1e-3, -1e-4, math.pi / 2 - 1e-4, math.pi - 1e-5] + [math.atan2(4, 3), -math.atan2(4, 3), math.atan2(5, 12), -math.atan2(5, 12), math.atan2(3, 4)]


def affine_pts(n, k):
    return [v for v in itertools.product(range(-k, k + 1), repeat=n)]


# ---------------------------------------------------------------------------------------------------


def enum_translation(tier, seed):
    deep = tier == "thorough"
    for dim in (2, 3):
        for v in affine_pts(dim, (4 if deep else 2) if dim == 2 else (2 if deep else 1)):
            for form in ("scalars", "point", "point_scaled", "point_negative"):
                yield (dim, v, form)


@family("C08", "translation", enum_translation)
def case_translation(ctx, cfg):
    import geometer as G

    dim, v, form = cfg
    ctx.state(cfg)
    ctx.tally(form)
    if form == "scalars":
        t, e = ctx.call(G.translation, *v)
    elif form == "point":
        t, e = ctx.call(G.translation, G.Point(*v))
    else:
        w = 2 if form == "point_scaled" else -3
        t, e = ctx.call(G.translation, G.Point(np.array([w * x for x in v] + [w])))
    ctx.trace()
    inputs = {"dim": dim, "offset": v, "form": form}
    want = np.eye(dim + 1)
    want[:-1, -1] = v
    if e is not None or type(t) is not G.Transformation or not proj_eq(t.array, want, 1e-12):
        ctx.fail(f"translation:matrix:{form}", "translation", inputs, want, e if e is not None else t.array)
        return
    pts = affine_pts(dim, 2 if dim == 2 else 1)
    P = G.PointCollection(np.array([list(p) + [1] for p in pts] + [list(p) + [0] for p in pts if any(p)], dtype=float))
    img, e = ctx.call(lambda: t * P)
    ctx.trace(len(P.array))
    exp = np.array([[a + b for a, b in zip(p, v)] + [1] for p in pts] + [list(p) + [0] for p in pts if any(p)], dtype=float)
    if e is not None:
        ctx.fail("translation:apply-raises", "t*p", inputs, "points", e)
        return
    for i in range(len(exp)):
        if not proj_eq(img.array[i], exp[i], 1e-12):
            ctx.fail("translation:image", "t*p", {**inputs, "p": exp[i] - np.array(list(v) + [0]) * exp[i][-1]}, exp[i], img.array[i])
            return
    # objects + point (translation by a point) agree
    if form == "point_scaled" and dim == 2:
        l = G.Line(1, 2, 3)
        r, e = ctx.call(lambda: l + G.Point(np.array([2 * x for x in v] + [2])))
        # line a x + b y + c = 0 shifted by v: a x + b y + c - a vx - b vy = 0
        wl = np.array([1, 2, 3 - v[0] - 2 * v[1]], dtype=float)
        if e is not None or not proj_eq(r.array, wl, 1e-12):
            ctx.fail("translation:line+point", "line + point", inputs, wl, e if e is not None else r.array)


# ---------------------------------------------------------------------------------------------------


ANGLES_T = ANGLES + [k * math.pi / 24 for k in range(-47, 48, 2)] + [s * math.atan2(a, b) for s in (1, -1) for a, b in ((8, 15), (15, 8), (7, 24), (24, 7), (20, 21), (12, 5))] + [1e-3, -1e-3, 3.0, -3.0, 2 * math.pi + 0.5, -7.0]


def enum_rotation2(tier, seed):
    for i, a in enumerate(ANGLES_T if tier == "thorough" else ANGLES):
        yield (i,)


@family("C08", "rotation_2d", enum_rotation2)
def case_rotation2(ctx, cfg):
    import geometer as G

    (i,) = cfg
    a = ANGLES_T[i]  # ANGLES is a prefix of ANGLES_T
    ctx.state(cfg)
    t, e = ctx.call(G.rotation, a)
    ctx.trace()
    c, s = math.cos(a), math.sin(a)
    want = np.array([[c, -s, 0], [s, c, 0], [0, 0, 1]])
    inputs = {"angle": a}
    if e is not None or type(t) is not G.Transformation or not np.allclose(t.array / t.array[2, 2], want, atol=1e-12):
        ctx.fail("rotation2d:matrix", "rotation", inputs, want, e if e is not None else t.array)
        return
    # counter-clockwise: (1,0) -> (cos a, sin a); exact Pythagorean images
    img, e = ctx.call(lambda: t * G.Point(5, 0))
    if e is not None or not proj_eq(img.array, np.array([5 * c, 5 * s, 1]), 1e-12):
        ctx.fail("rotation2d:image", "t*p", inputs, [5 * c, 5 * s, 1], e if e is not None else img.array)
        return
    if abs(a - math.atan2(4, 3)) < 1e-15 and not proj_eq(img.array, np.array([3, 4, 1]), 1e-12):
        ctx.fail("rotation2d:pythagorean", "t*p", inputs, [3, 4, 1], img.array)
        return
    # every lattice point (finite and at infinity) goes to its rotated position
    for p in affine_pts(2, 2):
        for w in (1, 0):
            if w == 0 and not any(p):
                continue
            img, e = ctx.call(lambda: t * G.Point(np.array([p[0], p[1], w], dtype=float)))
            ctx.trace()
            wv = np.array([c * p[0] - s * p[1], s * p[0] + c * p[1], w])
            if e is not None or not proj_eq(img.array, wv, 1e-12):
                ctx.fail("rotation2d:image-lattice", "t*p", {**inputs, "p": [p[0], p[1], w]}, wv, e if e is not None else img.array)
                return
    for j, b in enumerate(ANGLES_T if ctx.tier == "thorough" else ANGLES):
        r, e = ctx.call(lambda: G.rotation(a) * G.rotation(b))
        ctx.trace()
        w = G.rotation(a + b)
        c2, s2 = math.cos(a + b), math.sin(a + b)
        want2 = np.array([[c2, -s2, 0], [s2, c2, 0], [0, 0, 1]])
        if e is not None or not np.allclose(r.array / r.array[2, 2], want2, atol=1e-12):
            ctx.fail("rotation2d:additivity", "rotation(a)*rotation(b)", {"a": a, "b": b}, want2, e if e is not None else r.array)
            return


# ---------------------------------------------------------------------------------------------------


# axes whose coordinate vector is ALMOST of length one (within 1e-5, as unit vectors rounded to five or six digits are):
# a shortcut "already normalised" must be exact
NEAR_UNIT_AXES = [(0.57735, 0.57735, 0.57735), (0.6, 0.8, 0.003), (1.0, 0.002, 0.0), (0.0, -0.999995, 0.0), (0.267261, 0.534522, 0.801784), (-0.70711, 0.0, 0.70711)]


def enum_rotation3(tier, seed):
    for ax in lattice(3, 3 if tier == "thorough" else 2):
        for form in ("point", "scaled"):
            yield (ax, form)
    for ax in NEAR_UNIT_AXES:
        for form in ("point", "scaled"):
            yield (ax, form)


@family("C08", "rotation_axis", enum_rotation3)
def case_rotation3(ctx, cfg):
    import geometer as G

    ax, form = cfg
    ctx.state(cfg)
    axis = G.Point(*ax) if form == "point" else G.Point(np.array([-2 * x for x in ax] + [-2]))
    u = np.array(ax, dtype=float)
    u /= np.linalg.norm(u)
    # a lattice vector perpendicular to the axis
    if all(float(x).is_integer() for x in ax):
        perp = next(np.array(w, dtype=float) for w in lattice(3, 3) if sum(a * b for a, b in zip(w, ax)) == 0)
    else:
        perp = np.cross(u, np.eye(3)[int(np.argmin(np.abs(u)))])
    angles = ANGLES_T[:len(ANGLES) + 8] if ctx.tier == "thorough" else ANGLES[::2] + ANGLES[-5:]
    mats = {}
    for a in angles:
        t, e = ctx.call(G.rotation, a, axis)
        ctx.trace()
        inputs = {"axis": ax, "axis_form": form, "angle": a}
        if e is not None or type(t) is not G.Transformation or t.array.shape != (4, 4):
            ctx.fail("rotation3d:raises-or-type", "rotation(a, axis)", inputs, "Transformation", e if e is not None else type(t).__name__)
            return
        A = t.array / t.array[3, 3]
        R = A[:3, :3]
        bad = None
        if not np.allclose(A[3, :3], 0, atol=1e-12) or not np.allclose(A[:3, 3], 0, atol=1e-12):
            bad = "not-linear"
        elif not np.allclose(R.T @ R, np.eye(3), atol=1e-12):
            bad = "not-orthogonal"
        elif abs(np.linalg.det(R) - 1) > 1e-12:
            bad = "determinant"
        elif not np.allclose(R @ u, u, atol=1e-12):
            bad = "axis-not-fixed"
        elif abs(np.trace(R) - (1 + 2 * math.cos(a))) > 1e-12:
            bad = "trace"
        else:
            w = R @ perp
            cosang = float(w @ perp) / float(perp @ perp)
            if abs(cosang - math.cos(a)) > 1e-12:
                bad = "turn-angle"
        if bad:
            ctx.fail(f"rotation3d:{bad}", "rotation(a, axis)", inputs, "orthogonal, det 1, fixes axis, turns by |a|", A)
            return
        mats[a] = R
    # additivity about the same axis; same sense of rotation for all angles (R(a) R(b) = R(a+b))
    for a, b in itertools.product(list(mats)[:9], repeat=2):
        r, e = ctx.call(lambda: G.rotation(a, axis) * G.rotation(b, axis))
        ctx.trace()
        w, e2 = ctx.call(G.rotation, a + b, axis)
        if e is not None or e2 is not None or not np.allclose(r.array / r.array[3, 3], w.array / w.array[3, 3], atol=1e-12):
            ctx.fail("rotation3d:additivity", "rotation(a,axis)*rotation(b,axis)", {"axis": ax, "a": a, "b": b}, "rotation(a+b, axis)", e or e2 or r.array)
            return
    # opposite axis = opposite sense
    t1 = G.rotation(0.7, axis)
    t2 = G.rotation(-0.7, G.Point(*[-x for x in ax]))
    if not np.allclose(t1.array, t2.array, atol=1e-12):
        ctx.fail("rotation3d:opposite-axis", "rotation(a, -axis)", {"axis": ax}, t1.array, t2.array)


# ---------------------------------------------------------------------------------------------------


def enum_scaling(tier, seed):
    fac = [-2, -1, 1, 2, 0.5] + ([3, -0.25, 10, 1e-3] if tier == "thorough" else [])
    for dim in (2, 3):
        for f in itertools.product(fac, repeat=dim):
            yield (dim, f)


@family("C08", "scaling", enum_scaling)
def case_scaling(ctx, cfg):
    import geometer as G

    dim, f = cfg
    ctx.state(cfg)
    t, e = ctx.call(G.scaling, *f)
    ctx.trace()
    want = np.diag(list(f) + [1.0])
    inputs = {"factors": f}
    if e is not None or type(t) is not G.Transformation or not proj_eq(t.array, want, 1e-12):
        ctx.fail("scaling:matrix", "scaling", inputs, want, e if e is not None else t.array)
        return
    pts = affine_pts(dim, 1)
    P = G.PointCollection(np.array([list(p) + [1] for p in pts], dtype=float))
    img, e = ctx.call(lambda: t * P)
    exp = np.array([[a * b for a, b in zip(p, f)] + [1] for p in pts], dtype=float)
    if e is not None or not all(proj_eq(img.array[i], exp[i], 1e-12) for i in range(len(exp))):
        ctx.fail("scaling:image", "t*p", inputs, exp, e if e is not None else img.array)


# ---------------------------------------------------------------------------------------------------
# affine_transform(matrix, offset): the public constructor every other constructor goes through. p -> M p + v for every
# small integer matrix (singular ones included: the matrix is still what the caller asked for), every lattice offset, every
# argument form (matrix only, offset only, both; positional / keyword; list / tuple / ndarray) and dtype mix.


def enum_affine(tier, seed):
    deep = tier == "thorough"
    ent = (-1, 0, 1, 2) if deep else (-1, 0, 2)
    for dim in (2, 3):
        if dim == 2:
            mats = [((a, b), (c, d)) for a, b, c, d in itertools.product(ent, repeat=4)]
        else:
            base = [((1, 0, 0), (0, 1, 0), (0, 0, 1)), ((0, -1, 0), (1, 0, 0), (0, 0, 1)), ((1, 2, 0), (0, 1, -1), (0, 0, 2)),
                    ((2, -1, 1), (0, 3, 1), (1, 1, -2)), ((0, 0, 1), (1, 0, 0), (0, 1, 0)), ((1, 1, 1), (1, 1, 1), (0, 0, 0)),
                    ((1, 2, 3), (4, 5, 6), (7, 8, 10))]
            mats = base + ([tuple(tuple(-x for x in r) for r in m) for m in base] if deep else [])
        offs = affine_pts(dim, 1) if dim == 2 else [(0, 0, 0), (1, -2, 3), (-1, 0, 2), (0, 0, -1)]
        for m in mats:
            for v in offs:
                for form in ("both_int", "both_float", "int_m_float_v", "float_m_int_v", "kw_lists", "complex_m"):
                    yield (dim, m, v, form)
        for v in offs:
            for form in ("offset_only_int", "offset_only_float"):
                yield (dim, None, v, form)
        for m in mats:
            for form in ("matrix_only_int", "matrix_only_float"):
                yield (dim, m, None, form)


@family("C08", "affine_transform", enum_affine)
def case_affine(ctx, cfg):
    import geometer as G

    dim, m, v, form = cfg
    ctx.state(cfg)
    ctx.tally(form)
    inputs = {"dim": dim, "matrix": m, "offset": v, "form": form}
    M0 = None if m is None else np.array(m)
    v0 = None if v is None else np.array(v)
    if form == "both_int":
        args, kw = (M0, v0), {}
    elif form == "both_float":
        args, kw = (M0.astype(float) / 2, v0.astype(float) / 2), {}
    elif form == "int_m_float_v":
        args, kw = (M0, v0 + 0.5), {}
    elif form == "float_m_int_v":
        args, kw = (M0 + 0.25, v0), {}
    elif form == "kw_lists":
        args, kw = (), {"offset": tuple(v), "matrix": [list(r) for r in m]}
    elif form == "complex_m":
        args, kw = (M0 * (1 + 2j), v0), {}
    elif form == "offset_only_int":
        args, kw = (), {"offset": list(v)}
    elif form == "offset_only_float":
        args, kw = (None, v0 / 4), {}
    elif form == "matrix_only_int":
        args, kw = (M0,), {}
    else:
        args, kw = (), {"matrix": M0 * 1.5}
    a_m = args[0] if len(args) > 0 else kw.get("matrix")
    a_v = args[1] if len(args) > 1 else kw.get("offset")
    Mx = np.eye(dim) if a_m is None else np.array(a_m)
    vx = np.zeros(dim, dtype=int) if a_v is None else np.array(a_v)
    saved = [None if x is None else np.array(x, copy=True) for x in (a_m, a_v)]
    t, e = ctx.call(G.affine_transform, *args, **kw)
    ctx.trace()
    want = np.zeros((dim + 1, dim + 1), dtype=np.result_type(Mx.dtype if a_m is not None else np.int_, vx.dtype))
    want[:-1, :-1] = Mx
    want[:-1, -1] = vx
    want[-1, -1] = 1
    if e is not None or type(t) is not G.Transformation or t.array.shape != want.shape or not np.array_equal(t.array, want):
        ctx.fail(f"affine_transform:matrix:{form}", "affine_transform", inputs, want, e if e is not None else getattr(t, "array", t))
        return
    if t.array.dtype.kind != want.dtype.kind:
        ctx.fail(f"affine_transform:dtype:{form}", "affine_transform", inputs, str(want.dtype), str(t.array.dtype))
        return
    for x, s in zip((a_m, a_v), saved):
        if isinstance(x, np.ndarray) and not np.array_equal(x, s):
            ctx.fail(f"affine_transform:argument-modified:{form}", "affine_transform", inputs, s, x)
            return
    pts = affine_pts(dim, 1)
    P = G.PointCollection(np.array([list(p) + [1] for p in pts], dtype=float))
    img, e = ctx.call(lambda: t * P)
    ctx.trace(len(pts))
    if e is not None:
        ctx.fail("affine_transform:apply-raises", "t*p", inputs, "points", e)
        return
    for i, p in enumerate(pts):
        exp = np.append(Mx @ np.array(p) + vx, 1)
        got = img.array[i]
        if not proj_eq(got, exp, 1e-12):
            ctx.fail(f"affine_transform:image:{form}", "t*p", {**inputs, "p": p}, exp, got)
            return
    # a single finite point and a direction: M p + v and M d
    q, e = ctx.call(lambda: t * G.Point(*[2, -3, 5][:dim]))
    d, e2 = ctx.call(lambda: t * G.Point(np.array([1, -2, 3][:dim] + [0])))
    eq = np.append(Mx @ np.array([2, -3, 5][:dim]) + vx, 1)
    ed = np.append(Mx @ np.array([1, -2, 3][:dim]), 0)
    if e is not None or not proj_eq(q.array, eq, 1e-12):
        ctx.fail(f"affine_transform:single-point:{form}", "t*p", inputs, eq, e if e is not None else q.array)
    elif np.any(ed != 0) and (e2 is not None or not proj_eq(d.array, ed, 1e-12)):
        ctx.fail(f"affine_transform:direction:{form}", "t*d", inputs, ed, e2 if e2 is not None else d.array)


# ---------------------------------------------------------------------------------------------------


def enum_reflection(tier, seed):
    deep = tier == "thorough"
    for h in lattice(3, 4 if deep else 2):
        yield (2, h)
    for h in lattice(4, 2 if deep else 1):
        yield (3, h)


def householder(h):
    """Exact reflection across the hyperplane h (normal part non-zero) as a projective matrix (Fractions)."""
    n = len(h)
    a = [F(x) for x in h[:-1]]
    c = F(h[-1])
    nn = sum(x * x for x in a)
    M = [[F(int(i == j)) for j in range(n)] for i in range(n)]
    for i in range(n - 1):
        for j in range(n - 1):
            M[i][j] -= 2 * a[i] * a[j] / nn
        M[i][n - 1] = -2 * a[i] * c / nn
    return M


@family("C08", "reflection", enum_reflection)
def case_reflection(ctx, cfg):
    import geometer as G

    dim, h = cfg
    ctx.state(cfg)
    H = (G.Line if dim == 2 else G.Plane)(np.array(h, dtype=float))
    t, e = ctx.call(G.reflection, H)
    ctx.trace()
    inputs = {"dim": dim, "mirror": h}
    if e is not None or type(t) is not G.Transformation:
        ctx.fail(f"reflection:raises:{type(e).__name__ if e is not None else 'type'}", "reflection", inputs, "Transformation", e if e is not None else type(t).__name__)
        return
    if not any(h[:-1]):
        ctx.tally("hyperplane-at-infinity")
        if not proj_eq(t.array, np.eye(dim + 1), 1e-12):
            ctx.fail("reflection:at-infinity", "reflection", inputs, "identity", t.array)
        return
    zeros = sum(1 for x in h[:-1] if x == 0)
    ctx.tally(f"normal-with-{zeros}-zero-entries:{'through-origin' if h[-1] == 0 else 'off-origin'}")
    want = np.array([[float(x) for x in r] for r in householder(h)])
    if not proj_eq(t.array, want, 1e-12):
        ctx.fail("reflection:matrix", "reflection", inputs, want, t.array)
        return
    # the mirror is a projective object: any representative (negative, purely imaginary, complex multiple - Line.mirror
    # and angle_bisectors return such representatives) defines the same reflection
    for lam in (-2.0, 0.5, 1j, 1 + 2j):
        Hs = (G.Line if dim == 2 else G.Plane)(np.array(h, dtype=complex if isinstance(lam, complex) else float) * lam)
        ts, e = ctx.call(G.reflection, Hs)
        ctx.trace()
        if e is not None or not proj_eq(ts.array, want, 1e-12):
            ctx.fail(f"reflection:matrix:representative-times-{'complex' if isinstance(lam, complex) else 'real'}", "reflection", {**inputs, "representative_factor": lam}, want, e if e is not None else ts.array)
            return
    # small representatives of the mirror (coefficients of order 1e-3 / 1e-4, as un-normalised results carry them): the
    # reflection and h.mirror still agree, and mirror is still an involution
    for lam in (1e-3, 1e-4):
        Hs = (G.Line if dim == 2 else G.Plane)(np.array(h, dtype=float) * lam)
        ts, e = ctx.call(G.reflection, Hs)
        ctx.trace()
        if e is not None or not proj_eq(ts.array, want, 1e-10):
            ctx.fail("reflection:matrix:small-representative", "reflection", {**inputs, "representative_factor": lam}, want, e if e is not None else ts.array)
            return
        for p in [q + (1,) for q in affine_pts(dim, 1)][:: 2]:
            if sum(a * b for a, b in zip(h, p)) == 0:
                continue
            wv = np.array([float(x) for x in X.matvec(householder(h), [F(x) for x in p])])
            m, e = ctx.call(Hs.mirror, G.Point(np.array(p, dtype=float)))
            m2, e2 = ctx.call(Hs.mirror, m) if e is None else (None, e)
            ctx.trace(2)
            if e2 is not None or not proj_eq(m.array, wv, 1e-8) or not proj_eq(m2.array, np.array(p, dtype=float), 1e-8):
                ctx.fail(f"reflection:agrees-with-mirror:small-representative:{type(e2).__name__ if e2 is not None else 'value'}", "h.mirror(p), h.mirror(h.mirror(p))", {**inputs, "representative_factor": lam, "p": p}, wv, e2 if e2 is not None else [m.array, m2.array])
                return
    t2, e = ctx.call(lambda: t * t)
    if e is not None or not proj_eq(t2.array, np.eye(dim + 1), 1e-12):
        ctx.fail("reflection:involution", "t*t", inputs, "identity", e if e is not None else t2.array)
        return
    # fixes every lattice point of h; agrees with h.mirror on lattice points off h
    pts = [p + (1,) for p in affine_pts(dim, 2 if dim == 2 else 1)]
    for p in pts:
        on = sum(a * b for a, b in zip(h, p)) == 0
        img, e = ctx.call(lambda: t * G.Point(np.array(p, dtype=float)))
        ctx.trace()
        wv = np.array([float(x) for x in X.matvec(householder(h), [F(x) for x in p])])
        if e is not None or not proj_eq(img.array, wv, 1e-12) or (on and not proj_eq(img.array, np.array(p, dtype=float), 1e-12)):
            ctx.fail("reflection:image", "t*p", {**inputs, "p": p}, wv, e if e is not None else img.array)
            return
        if not on:
            m, e = ctx.call(H.mirror, G.Point(np.array(p, dtype=float)))
            ctx.trace()
            if e is not None or not proj_eq(m.array, wv, 1e-9):
                ctx.fail("reflection:agrees-with-mirror", "h.mirror(p)", {**inputs, "p": p}, wv, e if e is not None else m.array)
                return


# ---------------------------------------------------------------------------------------------------


GRID3 = [(x, y, 1) for x in (-1, 0, 1) for y in (-1, 0, 1)]


def general_frames2():
    out = []
    for f in itertools.permutations(GRID3, 4):
        if all(X.det([list(map(F, v)) for v in tri]) != 0 for tri in itertools.combinations(f, 3)):
            out.append(f)
    return out


TARGETS2 = [
    ((0, 0, 1), (1, 0, 1), (0, 1, 1), (1, 1, 1)),
    ((1, 0, 0), (0, 1, 0), (0, 0, 1), (1, 1, 1)),
    ((2, 1, 1), (-1, 3, 1), (0, -2, 1), (4, 4, 2)),
    ((1, 1, 0), (1, -1, 0), (0, 0, 1), (3, 1, 2)),
    ((0, 0, 1), (2, 0, 1), (2, 2, 1), (0, 2, 1)),
    ((1, 2, 3), (3, 1, 2), (2, 3, 1), (1, 1, -1)),
]


def enum_from_points(tier, seed):
    frames = general_frames2()
    for i, f in enumerate(frames):
        if tier == "quick" and i % 4 not in (0, seed % 4):
            continue
        yield (2, f)
    pts3 = [(x, y, z, 1) for x in (0, 1) for y in (0, 1) for z in (0, 1)] + [(2, 3, 5, 1)]
    if tier == "thorough":
        pts3 += [(1, -1, 2, 0), (-1, 2, 1, 3)]
    cnt = 0
    for f in itertools.combinations(pts3, 5):
        if all(X.det([list(map(F, v)) for v in q]) != 0 for q in itertools.combinations(f, 4)):
            for rot in range(5 if tier == "thorough" else 2):
                yield (3, f[rot:] + f[:rot])
                cnt += 1


TARGETS3 = [
    ((1, 0, 0, 0), (0, 1, 0, 0), (0, 0, 1, 0), (0, 0, 0, 1), (1, 1, 1, 1)),
    ((0, 0, 0, 1), (1, 0, 0, 1), (0, 1, 0, 1), (0, 0, 1, 1), (2, 3, 5, 2)),
    ((1, 2, 0, 1), (0, 1, 3, 1), (2, 0, 1, 1), (1, 1, 1, 0), (-1, 0, 2, 3)),
]


@family("C08", "from_points", enum_from_points)
def case_from_points(ctx, cfg):
    import geometer as G

    dim, src = cfg
    targets = TARGETS2 if dim == 2 else TARGETS3
    for ti, tgt in enumerate(targets):
        for direction in ("src->tgt", "tgt->src"):
            a, b = (src, tgt) if direction == "src->tgt" else (tgt, src)
            ctx.state((dim, tuple(map(tuple, src)), ti, direction))
            pa = [G.Point(np.array(v, dtype=float)) for v in a]
            pb = [G.Point(np.array(v, dtype=float)) for v in b]
            t, e = ctx.call(G.Transformation.from_points, *zip(pa, pb))
            ctx.trace()
            inputs = {"dim": dim, "source": a, "target": b}
            if e is not None or type(t) is not G.Transformation:
                ctx.fail("from_points:raises", "from_points", inputs, "Transformation", e if e is not None else type(t).__name__)
                return
            for x, y in zip(pa, pb):
                img, e = ctx.call(lambda: t * x)
                ctx.trace()
                if e is not None or not proj_eq(img.array, y.array, 1e-9):
                    ctx.fail("from_points:image", "t*source_i", {**inputs, "point": x.array}, y.array, e if e is not None else img.array)
                    return
            if abs(np.linalg.det(t.array)) < 1e-12 * np.linalg.norm(t.array) ** (dim + 1):
                ctx.fail("from_points:singular", "from_points", inputs, "invertible", t.array)
                return


# ---------------------------------------------------------------------------------------------------


CONICS_LP = {
    "circle25": (((1, 0, 0), (0, 1, 0), (0, 0, -25)), [(3, 4, 1), (-3, 4, 1), (4, -3, 1), (5, 0, 1), (0, -5, 1), (-4, -3, 1)]),
    "circle1": (((1, 0, 0), (0, 1, 0), (0, 0, -1)), [(1, 0, 1), (0, 1, 1), (-1, 0, 1), (0, -1, 1), (3, 4, 5)]),
    "hyperbola": (((0, 1, 0), (1, 0, 0), (0, 0, -2)), [(1, 1, 1), (-1, -1, 1), (4, 1, 2), (1, 4, 2), (1, 0, 0)]),
    "parabola": (((2, 0, 0), (0, 0, -1), (0, -1, 0)), [(0, 0, 1), (1, 1, 1), (-1, 1, 1), (2, 4, 1), (0, 1, 0)]),
}


for _n, (_A, _pts) in CONICS_LP.items():
    for _p in _pts:
        assert sum(_A[i][j] * _p[i] * _p[j] for i in range(3) for j in range(3)) == 0, (_n, _p)


def enum_fpc(tier, seed):
    names = list(CONICS_LP)
    for n1 in names:
        for n2 in names:
            p1 = list(itertools.permutations(CONICS_LP[n1][1], 3))
            p2 = list(itertools.permutations(CONICS_LP[n2][1], 3))
            step = 1 if tier == "thorough" else 7
            for i in range(0, len(p1), step):
                yield (n1, n2, p1[i], p2[(i * 5 + 3) % len(p2)])


@family("C08", "from_points_and_conics", enum_fpc)
def case_fpc(ctx, cfg):
    import geometer as G

    n1, n2, pts1, pts2 = cfg
    ctx.state(cfg)
    c1 = G.Conic(np.array(CONICS_LP[n1][0], dtype=float))
    c2 = G.Conic(np.array(CONICS_LP[n2][0], dtype=float))
    P1 = [G.Point(np.array(v, dtype=float)) for v in pts1]
    P2 = [G.Point(np.array(v, dtype=float)) for v in pts2]
    t, e = ctx.call(G.Transformation.from_points_and_conics, P1, P2, c1, c2)
    ctx.trace()
    inputs = {"conic1": n1, "conic2": n2, "points1": pts1, "points2": pts2}
    if e is not None:
        ctx.fail(f"from_points_and_conics:raises:{type(e).__name__}", "from_points_and_conics", inputs, "Transformation", e)
        return
    for x, y in zip(P1, P2):
        img, e = ctx.call(lambda: t * x)
        if e is not None or not proj_eq(img.array, y.array, 1e-7):
            ctx.fail("from_points_and_conics:image", "t*p", {**inputs, "point": x.array}, y.array, e if e is not None else img.array)
            return
    tc, e = ctx.call(lambda: t * c1)
    if e is not None or not proj_eq(tc.array, c2.array, 1e-7):
        ctx.fail("from_points_and_conics:conic", "t*conic1", inputs, c2.array, e if e is not None else tc.array)


def enum_noincidence(tier, seed):
    for n1 in CONICS_LP:
        for k in (0, 1):
            yield (n1, k)


@family("C08", "from_points_and_conics_no_incidence", enum_noincidence)
def case_noincidence(ctx, cfg):
    import geometer as G
    from geometer.exceptions import NoIncidence

    n1, k = cfg
    ctx.state(cfg)
    c1 = G.Conic(np.array(CONICS_LP[n1][0], dtype=float))
    c2 = G.Conic(np.array(CONICS_LP["circle1"][0], dtype=float))
    pts1 = [list(v) for v in CONICS_LP[n1][1][:3]]
    pts1[k] = [pts1[k][0] + 1, pts1[k][1] + 2, pts1[k][2]]  # moved off the conic
    if sum(CONICS_LP[n1][0][i][j] * pts1[k][i] * pts1[k][j] for i in range(3) for j in range(3)) == 0:
        ctx.skipped += 1
        return
    P1 = [G.Point(np.array(v, dtype=float)) for v in pts1]
    P2 = [G.Point(np.array(v, dtype=float)) for v in CONICS_LP["circle1"][1][:3]]
    for a, b, ca, cb, tag in ((P1, P2, c1, c2, "source"), (P2, P1, c2, c1, "target")):
        r, e = ctx.call(G.Transformation.from_points_and_conics, a, b, ca, cb)
        ctx.trace()
        if not isinstance(e, NoIncidence):
            ctx.fail(f"from_points_and_conics:point-off-conic:{tag}:{'no-raise' if e is None else type(e).__name__}", "from_points_and_conics", {"conic": n1, "moved_point": k, "side": tag}, "NoIncidence", e if e is not None else r.array)
            return
