"""C11: cross ratio has its closed-form value, its symmetries and projective invariance; harmonic_set; errors."""
from __future__ import annotations

import itertools
from fractions import Fraction as F

import numpy as np

from checks import joinmeet as JM
from checks import xform as XF
from checks.c07 import cr_exact, pt_on
from mc import exact as X
from mc.compare import num_eq, proj_eq
from mc.core import family, lattice

PARAMS = ["inf", -2, -1, 0, 1, 2, 3]
TUPLES = list(itertools.permutations(PARAMS, 4))

# oracle self-check: the closed form satisfies the five symmetry identities on every tuple
for _t in TUPLES:
    a, b, c, d = _t
    v = cr_exact(_t)
    if v == "inf" or v == 0:
        continue
    assert v == cr_exact((b, a, d, c)) == cr_exact((c, d, a, b))
    assert cr_exact((a, b, d, c)) == 1 / v
    w = cr_exact((a, c, b, d))
    assert w != "inf" and 1 - w == v


def lines_scope(dim, tier):
    if dim == 1:
        return [((0, 1), (1, 0)), ((1, 1), (1, 0)), ((2, 1), (-1, 1)), ((0, 1), (1, 2))]
    if dim == 2:
        reps = JM.proj_reps(lattice(3, 1))
        return [(a, b) for a in reps for b in reps if X.irank([list(a), list(b)]) == 2]
    t3 = JM.T3() if tier == "thorough" else JM.T3()[:10]
    return [(a, b) for a in t3 for b in t3 if X.irank([list(a), list(b)]) == 2]


def enum_points(tier, seed):
    for dim in (1, 2, 3):
        for ab in lines_scope(dim, tier):
            yield (dim, ab)


def finite_tuples():
    out, want = [], []
    for t in TUPLES:
        v = cr_exact(t)
        if v == "inf":
            continue
        out.append(t)
        want.append(float(v))
    return out, np.array(want)


@family("C11", "collinear_points", enum_points)
def case_points(ctx, cfg):
    import geometer as G

    dim, (a, b) = cfg
    tuples, want = finite_tuples()
    cols = [G.PointCollection(np.array([pt_on(a, b, t[k]) for t in tuples], dtype=float)) for k in range(4)]
    base = hash(("pts", dim, tuple(a), tuple(b)))
    ctx.states.update(hash((base, i)) for i in range(len(tuples)))
    ctx.nontrivial.update(hash((base, i)) for i in range(len(tuples)))
    ctx.tally(f"{dim}d:tuples", len(tuples))
    r, e = ctx.call(G.crossratio, *cols)
    ctx.trace(len(tuples))
    inputs = {"dim": dim, "a": a, "b": b}
    if e is not None or np.shape(r) != want.shape:
        ctx.fail(f"crossratio:points:{dim}d:collection:{type(e).__name__ if e is not None else 'shape'}", "crossratio", inputs, "values", e if e is not None else list(np.shape(r)))
        return
    bad = [i for i in range(len(tuples)) if not num_eq(r[i], want[i], 1e-9, 1e-9)]
    if bad:
        i = bad[0]
        ctx.fail(f"crossratio:points:{dim}d", "crossratio", {**inputs, "parameters": tuples[i]}, want[i], r[i])
        return
    # scalar path, different homogeneous representatives
    for i in range(0, len(tuples), 7 if ctx.tier == "quick" else 1):
        t = tuples[i]
        pts = [G.Point(np.array(pt_on(a, b, x), dtype=float) * (1, -2, 3, 1)[k]) for k, x in enumerate(t)]
        v, e = ctx.call(G.crossratio, *pts)
        ctx.trace()
        if e is not None or not num_eq(v, want[i], 1e-9, 1e-9):
            ctx.fail(f"crossratio:points:{dim}d:single", "crossratio", {**inputs, "parameters": t}, want[i], e if e is not None else v)
            return
    # invariance under projective transformations
    if dim in (2, 3):
        for g in ("proj", "detm3", "rot345", "proj2"):
            t_ = G.Transformation(XF.mat_np(XF.gens(dim)[g]))
            r2, e = ctx.call(G.crossratio, *[t_ * c for c in cols])
            ctx.trace(len(tuples))
            if e is not None or not all(num_eq(x, y, 1e-8, 1e-8) for x, y in zip(r2, want)):
                ctx.fail(f"crossratio:points:{dim}d:invariance", "crossratio", {**inputs, "generator": g}, "unchanged values", e if e is not None else "mismatch")
                return


# ---------------------------------------------------------------------------------------------------


def enum_pencils(tier, seed):
    lines = [((0, 0, 1), (1, 0, 0)), ((1, 2, 1), (1, -1, 0)), ((0, 1, 1), (2, 1, 1)), ((1, 0, 1), (0, 1, 0)), ((1, 1, 1), (1, 1, 0))]
    for ab in lines:
        for v in lattice(3, 1) + [(2, 3, 1), (3, -1, 2)]:
            if X.irank([list(ab[0]), list(ab[1]), list(v)]) == 3:
                yield (ab, v)
        # complex vertices: the circular points I, J (v.v = 0), an isotropic finite point, a generic complex point
        for v in ([[0, -1], 1, 0], [[0, 1], 1, 0], [[0, 1], 0, 1], [[1, 1], 2, 1], [1, [0, 1], 0]):
            yield (ab, v)


@family("C11", "pencils_and_from_point", enum_pencils)
def case_pencils(ctx, cfg):
    import geometer as G

    (a, b), v = cfg
    tuples, want = finite_tuples()
    is_complex = any(isinstance(x, (list, tuple)) for x in v)
    vv = np.array([complex(x[0], x[1]) if isinstance(x, (list, tuple)) else x for x in v])
    if is_complex and abs(np.linalg.det(np.array([a, b, vv], dtype=complex))) < 1e-12:
        ctx.skipped += 1
        return
    vert = G.Point(vv if is_complex else np.array(v, dtype=float))
    v = tuple(tuple(x) if isinstance(x, (list, tuple)) else x for x in v)
    cols = [G.PointCollection(np.array([pt_on(a, b, t[k]) for t in tuples], dtype=float)) for k in range(4)]
    base = hash(("pencil", tuple(a), tuple(b), tuple(v)))
    ctx.states.update(hash((base, i)) for i in range(len(tuples)))
    ctx.nontrivial.update(hash((base, i)) for i in range(len(tuples)))
    kind = ("vertex-complex-isotropic" if abs(vv @ vv) < 1e-12 else "vertex-complex") if is_complex else "vertex-at-origin" if tuple(v[:2]) == (0, 0) else "vertex-on-axis" if 0 in v[:2] and v[2] != 0 else "vertex-at-infinity" if v[2] == 0 else "vertex-generic"
    ctx.tally(kind)
    inputs = {"a": a, "b": b, "vertex": v}
    # four points seen from a fifth
    r, e = ctx.call(G.crossratio, *cols, vert)
    ctx.trace(len(tuples))
    if e is not None or not all(num_eq(x, y, 1e-9, 1e-9) for x, y in zip(np.atleast_1d(r), want)):
        i = None if e is not None else next(k for k, (x, y) in enumerate(zip(np.atleast_1d(r), want)) if not num_eq(x, y, 1e-9, 1e-9))
        ctx.fail(f"crossratio:from_point:{kind}", "crossratio", {**inputs, "parameters": None if i is None else tuples[i]}, None if i is None else want[i], e if e is not None else np.atleast_1d(r)[i])
        return
    # four concurrent lines
    ls = [G.join(vert, c) for c in cols]
    r, e = ctx.call(G.crossratio, *ls)
    ctx.trace(len(tuples))
    if e is not None or not all(num_eq(x, y, 1e-8, 1e-8) for x, y in zip(np.atleast_1d(r), want)):
        i = None if e is not None else next(k for k, (x, y) in enumerate(zip(np.atleast_1d(r), want)) if not num_eq(x, y, 1e-8, 1e-8))
        ctx.fail(f"crossratio:lines:{kind}", "crossratio", {**inputs, "parameters": None if i is None else tuples[i]}, None if i is None else want[i], e if e is not None else np.atleast_1d(r)[i])
        return
    for i in range(0, len(tuples), 29):
        t = tuples[i]
        sl = [G.join(vert, G.Point(np.array(pt_on(a, b, x), dtype=float))) for x in t]
        val, e = ctx.call(G.crossratio, *sl)
        ctx.trace()
        if e is not None or not num_eq(val, want[i], 1e-8, 1e-8):
            ctx.fail(f"crossratio:lines:single:{kind}", "crossratio", {**inputs, "parameters": t}, want[i], e if e is not None else val)
            return


def enum_pencils3(tier, seed):
    lines = [((0, 0, 0, 1), (1, 1, 0, 0)), ((1, 0, 2, 1), (0, 1, -1, 0)), ((0, 1, 1, 1), (2, 1, 0, 1))]
    verts = JM.T3() if tier == "thorough" else JM.T3()[::2]
    for ab in lines:
        for v in verts:
            if X.irank([list(ab[0]), list(ab[1]), list(v)]) == 3:
                yield (ab, v)


@family("C11", "pencils_3d", enum_pencils3)
def case_pencils3(ctx, cfg):
    import geometer as G

    (a, b), v = cfg
    tuples, want = finite_tuples()
    vert = G.Point(np.array(v, dtype=float))
    cols = [G.PointCollection(np.array([pt_on(a, b, t[k]) for t in tuples], dtype=float)) for k in range(4)]
    base = hash(("pencil3", tuple(a), tuple(b), tuple(v)))
    ctx.states.update(hash((base, i)) for i in range(len(tuples)))
    ctx.nontrivial.update(hash((base, i)) for i in range(len(tuples)))
    ctx.tally("vertex-at-infinity" if v[3] == 0 else "vertex-finite")
    ls = [G.join(vert, c) for c in cols]
    r, e = ctx.call(G.crossratio, *ls)
    ctx.trace(len(tuples))
    inputs = {"a": a, "b": b, "vertex": v}
    if e is not None or not all(num_eq(x, y, 1e-7, 1e-7) for x, y in zip(np.atleast_1d(r), want)):
        i = None if e is not None else next(k for k, (x, y) in enumerate(zip(np.atleast_1d(r), want)) if not num_eq(x, y, 1e-7, 1e-7))
        ctx.fail(f"crossratio:lines3d:{type(e).__name__ if e is not None else 'value'}", "crossratio", {**inputs, "parameters": None if i is None else tuples[i]}, None if i is None else want[i], e if e is not None else np.atleast_1d(r)[i])
        return
    for i in range(0, len(tuples), 53):
        t = tuples[i]
        sl = [G.join(vert, G.Point(np.array(pt_on(a, b, x), dtype=float))) for x in t]
        val, e = ctx.call(G.crossratio, *sl)
        ctx.trace()
        if e is not None or not num_eq(val, want[i], 1e-7, 1e-7):
            ctx.fail("crossratio:lines3d:single", "crossratio", {**inputs, "parameters": t}, want[i], e if e is not None else val)
            return


# ---------------------------------------------------------------------------------------------------


def enum_planes(tier, seed):
    axes = [((0, 0, 0, 1), (0, 0, 1, 0)), ((1, 0, 0, 1), (0, 1, 1, 0)), ((0, 0, 0, 1), (1, 1, 1, 0)), ((1, 2, 0, 1), (1, 0, 0, 0))]
    carriers = [((1, 0, 0, 1), (0, 1, 0, 0)), ((0, 1, 1, 1), (1, 0, 1, 0)), ((2, 1, 0, 1), (0, 1, -1, 1))]
    for ax in axes:
        for ca in carriers:
            # only carrier lines exactly skew to the axis: otherwise point -> plane is not a bijection
            if X.idet4([list(ax[0]), list(ax[1]), list(ca[0]), list(ca[1])]) != 0:
                yield (ax, ca)


@family("C11", "coaxial_planes", enum_planes)
def case_planes(ctx, cfg):
    import geometer as G

    (p, q), (a, b) = cfg
    tuples, want = finite_tuples()
    axis = G.Line(G.Point(np.array(p, dtype=float)), G.Point(np.array(q, dtype=float)))
    cols = [G.PointCollection(np.array([pt_on(a, b, t[k]) for t in tuples], dtype=float)) for k in range(4)]
    base = hash(("planes", tuple(p), tuple(q), tuple(a), tuple(b)))
    ctx.states.update(hash((base, i)) for i in range(len(tuples)))
    ctx.nontrivial.update(hash((base, i)) for i in range(len(tuples)))
    planes = []
    for c in cols:
        pl, e = ctx.call(G.join, axis, c)
        if e is not None:
            ctx.fail("crossratio:planes:join-raises", "join", {"axis": [p, q], "carrier": [a, b]}, "planes", e)
            return
        planes.append(pl)
    r, e = ctx.call(G.crossratio, *planes)
    ctx.trace(len(tuples))
    inputs = {"axis": [p, q], "carrier": [a, b]}
    if e is not None or not all(num_eq(x, y, 1e-7, 1e-7) for x, y in zip(np.atleast_1d(r), want)):
        i = None if e is not None else next(k for k, (x, y) in enumerate(zip(np.atleast_1d(r), want)) if not num_eq(x, y, 1e-7, 1e-7))
        ctx.fail("crossratio:planes", "crossratio", {**inputs, "parameters": None if i is None else tuples[i]}, None if i is None else want[i], e if e is not None else np.atleast_1d(r)[i])
        return
    for i in range(0, len(tuples), 41):
        t = tuples[i]
        sp = [G.join(axis, G.Point(np.array(pt_on(a, b, x), dtype=float))) for x in t]
        val, e = ctx.call(G.crossratio, *sp)
        ctx.trace()
        if e is not None or not num_eq(val, want[i], 1e-7, 1e-7):
            ctx.fail("crossratio:planes:single", "crossratio", {**inputs, "parameters": t}, want[i], e if e is not None else val)
            return


# ---------------------------------------------------------------------------------------------------


def harmonic_param(x1, x2, x3):
    """x4 with cr(x1, x2, x3, x4) = -1, as an exact parameter ('inf' allowed)."""
    for cand in PARAMS + [F(k, m) for k in range(-12, 13) for m in (1, 2, 3, 4, 5, 7)]:
        if cand in (x1, x2, x3):
            continue
        try:
            if cr_exact((x1, x2, x3, cand)) == -1:
                return cand
        except (AssertionError, ZeroDivisionError):
            continue
    return None


def enum_harmonic(tier, seed):
    # 1D is not in scope: harmonic_set is built from join(a, b), which does not exist for points of the projective line
    for dim in (2, 3):
        for ab in lines_scope(dim, tier)[:: (1 if tier == "thorough" or dim == 1 else 3)]:
            yield (dim, ab)


@family("C11", "harmonic_set", enum_harmonic)
def case_harmonic(ctx, cfg):
    import geometer as G

    dim, (a, b) = cfg
    for t in itertools.permutations(PARAMS, 3):
        x4 = harmonic_param(*t)
        if x4 is None:
            ctx.skipped += 1
            continue
        ctx.state((dim, tuple(a), tuple(b), t))
        pts = [G.Point(np.array(pt_on(a, b, x), dtype=float)) for x in t]
        r, e = ctx.call(G.harmonic_set, *pts)
        ctx.trace()
        if x4 == "inf":
            want = np.array(b, dtype=float)
        else:
            want = np.array([float(F(ai) + x4 * bi) for ai, bi in zip(a, b)])
        line_kind = "axis-line" if dim == 2 and (0 in X.cross([F(x) for x in a], [F(x) for x in b])[:2]) else "generic-line"
        ctx.tally(f"{dim}d:{line_kind}")
        if e is not None or not proj_eq(r.array, want, 1e-7):
            ctx.fail(f"harmonic_set:{dim}d:{type(e).__name__ if e is not None else 'value'}", "harmonic_set", {"dim": dim, "a": a, "b": b, "parameters": t}, want, e if e is not None else r.array)
            return
        if dim > 1:
            v, e = ctx.call(G.crossratio, *pts, r)
            if e is not None or not num_eq(v, -1.0, 1e-7, 1e-7):
                ctx.fail(f"harmonic_set:{dim}d:crossratio", "crossratio(a,b,c,harmonic_set)", {"dim": dim, "a": a, "b": b, "parameters": t}, -1.0, e if e is not None else v)
                return


# ---------------------------------------------------------------------------------------------------


def enum_errors(tier, seed):
    yield ("points2d",)
    yield ("points3d",)
    yield ("lines2d",)
    yield ("mixed-collections",)


@family("C11", "not_collinear_not_concurrent", enum_errors)
def case_errors(ctx, cfg):
    import geometer as G
    from geometer.exceptions import NotCollinear, NotConcurrent

    (kind,) = cfg
    if kind == "points2d":
        pts = [(x, y, 1) for x in (-1, 0, 1) for y in (-1, 0, 1)]
        for t in itertools.permutations(pts, 4):
            if X.irank([list(p) for p in t]) < 3:
                continue
            if X.irank([list(t[0]), list(t[1])]) < 2:
                continue
            ctx.state((kind, t))
            r, e = ctx.call(G.crossratio, *[G.Point(np.array(p, dtype=float)) for p in t])
            ctx.trace()
            if not isinstance(e, NotCollinear):
                ctx.fail(f"crossratio:not-collinear:2d:{'no-raise' if e is None else type(e).__name__}", "crossratio", {"points": t}, "NotCollinear", e if e is not None else r)
                return
        # repeated points (equal coordinates, separate objects): a != b, the point set is not on one line
        for t in itertools.product(pts, repeat=4):
            if len(set(t)) == 4 or t[0] == t[1] or X.irank([list(p) for p in t]) < 3:
                continue
            ctx.state((kind, "repeated", t))
            ctx.tally("repeated-points")
            r, e = ctx.call(G.crossratio, *[G.Point(np.array(p, dtype=float) * w) for p, w in zip(t, (1, 2, 1, -1))])
            ctx.trace()
            if not isinstance(e, NotCollinear):
                pat = "".join(str(t.index(p)) for p in t)
                ctx.fail(f"crossratio:not-collinear:2d:repeated-points:{'no-raise' if e is None else type(e).__name__}", "crossratio", {"points": t, "equality_pattern": pat}, "NotCollinear", e if e is not None else r)
                return
    elif kind == "points3d":
        pts = JM.T3()[:9]
        for t in itertools.permutations(pts, 4):
            if X.irank([list(p) for p in t]) < 3:
                continue
            ctx.state((kind, t))
            r, e = ctx.call(G.crossratio, *[G.Point(np.array(p, dtype=float)) for p in t])
            ctx.trace()
            if not isinstance(e, NotCollinear):
                rk = X.irank([list(p) for p in t])
                ctx.fail(f"crossratio:not-collinear:3d:rank{rk}:{'no-raise' if e is None else type(e).__name__}", "crossratio", {"points": t}, "NotCollinear", e if e is not None else r)
                return
    elif kind == "lines2d":
        H = JM.proj_reps(lattice(3, 1))
        for t in itertools.permutations(H, 4):
            if X.irank([list(h) for h in t]) < 3:
                continue
            ctx.state((kind, t))
            r, e = ctx.call(G.crossratio, *[G.Line(np.array(h, dtype=float)) for h in t])
            ctx.trace()
            if not isinstance(e, NotConcurrent):
                ctx.fail(f"crossratio:not-concurrent:{'no-raise' if e is None else type(e).__name__}", "crossratio", {"lines": t}, "NotConcurrent", e if e is not None else r)
                return
        for t in itertools.product(H, repeat=4):
            if len(set(t)) == 4 or t[0] == t[1] or X.irank([list(h) for h in t]) < 3:
                continue
            ctx.state((kind, "repeated", t))
            r, e = ctx.call(G.crossratio, *[G.Line(np.array(h, dtype=float)) for h in t])
            ctx.trace()
            if not isinstance(e, NotConcurrent):
                ctx.fail(f"crossratio:not-concurrent:repeated-lines:{'no-raise' if e is None else type(e).__name__}", "crossratio", {"lines": t}, "NotConcurrent", e if e is not None else r)
                return
    else:
        # collections in which only some positions are collinear / concurrent
        good = [pt_on((0, 0, 1), (1, 1, 0), x) for x in (0, 1, 2, 3)]
        bad = [(0, 0, 1), (1, 1, 1), (2, 2, 1), (3, 4, 1)]
        bad2 = [(0, 0, 1), (1, 0, 1), (0, 1, 1), (1, 1, 1)]
        for rows in ([good, bad], [bad, good], [good, good, bad2], [bad, bad2]):
            cols = [G.PointCollection(np.array([r_[k] for r_ in rows], dtype=float)) for k in range(4)]
            ctx.state((kind, tuple(map(tuple, rows))))
            r, e = ctx.call(G.crossratio, *cols)
            ctx.trace()
            if not isinstance(e, NotCollinear):
                ctx.fail(f"crossratio:not-collinear:mixed-collection:{'no-raise' if e is None else type(e).__name__}", "crossratio", {"rows": rows}, "NotCollinear", e if e is not None else r)
                return
            lcols = [G.LineCollection(np.array([r_[k] for r_ in rows], dtype=float)) for k in range(4)]
            r, e = ctx.call(G.crossratio, *lcols)
            if not isinstance(e, NotConcurrent):
                ctx.fail(f"crossratio:not-concurrent:mixed-collection:{'no-raise' if e is None else type(e).__name__}", "crossratio", {"rows": rows}, "NotConcurrent", e if e is not None else r)
                return
        g3 = [pt_on((0, 0, 0, 1), (1, 1, 0, 0), x) for x in (0, 1, 2, 3)]
        b3 = [(0, 0, 0, 1), (1, 0, 0, 1), (0, 1, 0, 1), (0, 0, 1, 1)]
        for rows in ([g3, b3], [b3, g3]):
            cols = [G.PointCollection(np.array([r_[k] for r_ in rows], dtype=float)) for k in range(4)]
            r, e = ctx.call(G.crossratio, *cols)
            if not isinstance(e, NotCollinear):
                ctx.fail(f"crossratio:not-collinear:mixed-collection:3d:{'no-raise' if e is None else type(e).__name__}", "crossratio", {"rows": rows}, "NotCollinear", e if e is not None else r)
                return


# ---------------------------------------------------------------------------------------------------
# Complex parameters: the points a + x b for Gaussian-integer x on real base lines. Every ordered 4-tuple of distinct
# parameters from a set that mixes real and non-real ones (so that any subset of the four arguments may be the complex one),
# as collections and as single calls, in the plain form and seen from a fifth point (round 14, R14a_c).

CPARAMS = [0, 1, -2, 3, 1j, 1 + 2j, -1j, 2 + 1j]


def enum_cparams(tier, seed):
    lines = {
        1: [((0, 1), (1, 0)), ((2, 1), (-1, 1))],
        2: [((1, 2, 1), (3, -1, 0)), ((0, 0, 1), (1, 1, 1)), ((2, -1, 1), (1, 0, 2))],
        3: [((1, 2, 0, 1), (0, 1, -1, 0)), ((0, 0, 0, 1), (1, 2, 3, 1))],
    }
    for dim, ls in lines.items():
        for ab in ls if tier == "thorough" else ls[:2]:
            for form in ("plain",) + (("from_point",) if dim == 2 else ()):
                yield (dim, ab, form)


@family("C11", "complex_parameters", enum_cparams)
def case_cparams(ctx, cfg):
    import geometer as G

    dim, (a, b), form = cfg
    a, b = np.array(a, dtype=complex), np.array(b, dtype=complex)
    tuples = list(itertools.permutations(CPARAMS, 4))
    want = np.array([(t[0] - t[2]) * (t[1] - t[3]) / ((t[0] - t[3]) * (t[1] - t[2])) for t in tuples])

    def arr(x):
        v = a + x * b
        return v if abs(complex(x).imag) > 0 else np.real(v)  # real parameters give real-dtype points

    extra = []
    if form == "from_point":
        # a real point off the line
        n_ = np.cross(np.real(a), np.real(b))
        extra = [G.Point(np.array([n_[0], n_[1], 1.0 if abs(n_[0] * n_[0] + n_[1] * n_[1] + n_[2]) > 1e-9 else 2.0]))]
    ctx.state(cfg)
    # collections: position i holds tuple i (complex dtype throughout, as a collection has one dtype)
    cols = [G.PointCollection(np.array([a + t[k] * b for t in tuples])) for k in range(4)]
    r, e = ctx.call(G.crossratio, *cols, *extra)
    ctx.trace(len(tuples))
    inputs = {"dim": dim, "a": np.real(a), "b": np.real(b), "form": form}
    if e is not None or np.shape(r) != want.shape:
        ctx.fail(f"crossratio:complex-parameters:collection:{type(e).__name__ if e is not None else 'shape'}", "crossratio", inputs, "values", e if e is not None else list(np.shape(r)))
        return
    bad = [i for i in range(len(tuples)) if not num_eq(r[i], want[i], 1e-9, 1e-9)]
    if bad:
        ctx.fail(f"crossratio:complex-parameters:collection:{form}", "crossratio", {**inputs, "parameters": [str(x) for x in tuples[bad[0]]]}, want[bad[0]], r[bad[0]])
        return
    # single calls with per-argument dtypes (a real parameter gives a float point, a non-real one a complex point)
    step = 1 if ctx.tier == "thorough" else 7
    for i in range(hash((dim, form)) % step, len(tuples), step):
        t = tuples[i]
        ctx.tally("complex-first-pair-only" if all(complex(x).imag == 0 for x in t[2:]) and any(complex(x).imag != 0 for x in t[:2]) else "other-mix")
        v, e = ctx.call(G.crossratio, *[G.Point(arr(x)) for x in t], *extra)
        ctx.trace()
        if e is not None or not num_eq(v, want[i], 1e-9, 1e-9):
            ctx.fail(f"crossratio:complex-parameters:single:{form}", "crossratio", {**inputs, "parameters": [str(x) for x in t]}, want[i], e if e is not None else v)
            return
