"""C13: quadric constructors produce the quadric of their defining data."""
from __future__ import annotations

import itertools
import math
from fractions import Fraction as F

import numpy as np

from mc import exact as X
from mc.compare import num_eq, on_quadric, proj_eq
from mc.core import family, lattice


def grid(k):
    return [(x, y, 1) for x in range(-k, k + 1) for y in range(-k, k + 1)]


def collinear3(p, q, r):
    return X.idet4([list(p), list(q), list(r)]) == 0


def general(pts):
    return not any(collinear3(*t) for t in itertools.combinations(pts, 3))


def conic_through(pts):
    """Exact conic through five points: kernel of the 5x6 system in (xx, xy, yy, xz, yz, zz)."""
    rows = [[p[0] * p[0], p[0] * p[1], p[1] * p[1], p[0] * p[2], p[1] * p[2], p[2] * p[2]] for p in pts]
    ns = X.inull(rows, 6)
    if len(ns) != 1:
        return None
    a, b, c, d, e, f = ns[0]
    return np.array([[2 * a, b, d], [b, 2 * c, e], [d, e, 2 * f]], dtype=float)


# ---------------------------------------------------------------------------------------------------


def enum_from_points(tier, seed):
    g = grid(2)
    idx = 0
    for sub in itertools.combinations(range(25), 5):
        pts = [g[i] for i in sub]
        if general(pts):
            yield ("subset", sub)
            idx += 1


@family("C13", "from_points", enum_from_points)
def case_from_points(ctx, cfg):
    import geometer as G

    _, sub = cfg
    g = grid(2)
    pts = [g[i] for i in sub]
    want = conic_through(pts)
    assert want is not None
    ctx.state(tuple(sub))
    P = [G.Point(np.array(p, dtype=float) * w) for p, w in zip(pts, (1, 2, -1, 1, 3))]
    orders = [tuple(range(5))]
    h = hash(tuple(sub))
    if ctx.tier == "thorough" or h % 16 == 0:
        orders = list(itertools.permutations(range(5)))[:: (1 if ctx.tier == "thorough" and h % 8 == 0 else 7)]
    for od in orders:
        c, e = ctx.call(G.Conic.from_points, *[P[i] for i in od])
        ctx.trace()
        inputs = {"points": [pts[i] for i in od]}
        if e is not None or type(c) is not G.Conic:
            ctx.fail("from_points:raises", "from_points", inputs, "Conic", e if e is not None else type(c).__name__)
            return
        A = c.array
        if not np.allclose(A, A.T, atol=1e-12 * np.max(np.abs(A))):
            ctx.fail("from_points:not-symmetric", "from_points", inputs, "symmetric matrix", A)
            return
        if not all(on_quadric(A, np.array(p, dtype=float), 1e-9) for p in pts) or not proj_eq(A, want, 1e-9):
            ctx.fail("from_points:value", "from_points", inputs, want, A)
            return
        r, e = ctx.call(lambda: [bool(c.contains(p)) for p in P])
        if e is not None or not all(r):
            ctx.fail("from_points:contains", "contains", inputs, [True] * 5, e if e is not None else r)
            return
    # from_crossratio with the exact cross ratio of a,b,c,d seen from e gives the same conic
    a, b, c_, d, e5 = [[F(x) for x in p] for p in pts]
    det3 = lambda *m: X.det([list(r) for r in m])  # noqa: E731
    num = det3(e5, a, c_) * det3(e5, b, d)
    den = det3(e5, a, d) * det3(e5, b, c_)
    if den != 0 and num != 0:
        cr = float(num / den)
        c2, e = ctx.call(G.Conic.from_crossratio, cr, *P[:4])
        ctx.trace()
        if e is not None or not proj_eq(c2.array, want, 1e-8):
            ctx.fail("from_crossratio:value", "from_crossratio", {"points": pts[:4], "cr": cr, "fifth": pts[4]}, want, e if e is not None else c2.array)


# ---------------------------------------------------------------------------------------------------


def enum_from_tangent(tier, seed):
    g = grid(1)
    lines = lattice(3, 2)
    for sub in itertools.combinations(range(9), 4):
        pts = [g[i] for i in sub]
        if not general(pts):
            continue
        for li, l in enumerate(lines):
            if next(x for x in l if x) < 0:
                continue
            if any(sum(a * b for a, b in zip(l, p)) == 0 for p in pts):
                continue
            # general position also excludes tangents through a diagonal point of the complete quadrangle: the
            # degenerate conic with that vertex meets the tangent in a double point, i.e. it is one of the two "solutions"
            a_, b_, c_, d_ = [[F(x) for x in p] for p in pts]
            diag = [X.cross(X.cross(p1, p2), X.cross(p3, p4)) for p1, p2, p3, p4 in ((a_, b_, c_, d_), (a_, c_, b_, d_), (a_, d_, b_, c_))]
            if any(sum(F(x) * y for x, y in zip(l, dp)) == 0 for dp in diag):
                continue
            yield (sub, l)


P8 = [(0, 1, 1), (1, 2, 1), (2, 1, 1), (-1, 3, 1), (1, -1, 1), (-2, -1, 1), (0, -2, 1), (3, -2, 1)]
AXIS_LINES = [(0, 1, 0), (1, 0, 0), (0, 0, 1), (1, 1, 0), (1, -1, 0), (2, 1, 0), (0, 1, -1), (1, 0, 1)]


def enum_from_tangent2(tier, seed):
    """Second scope: asymmetric point sets, tangents through the origin (coordinate axes, the line at infinity)."""
    for sub in itertools.combinations(range(8), 4):
        pts = [P8[i] for i in sub]
        if not general(pts):
            continue
        a_, b_, c_, d_ = [[F(x) for x in p] for p in pts]
        diag = [X.cross(X.cross(p1, p2), X.cross(p3, p4)) for p1, p2, p3, p4 in ((a_, b_, c_, d_), (a_, c_, b_, d_), (a_, d_, b_, c_))]
        for l in AXIS_LINES:
            if any(sum(a * b for a, b in zip(l, p)) == 0 for p in pts) or any(sum(F(x) * y for x, y in zip(l, dp)) == 0 for dp in diag):
                continue
            yield ([i + 100 for i in sub], l)


def enum_incidence_error(tier, seed):
    g = grid(1)
    for sub in itertools.combinations(range(9), 4):
        pts = [g[i] for i in sub]
        if general(pts):
            yield (sub,)


@family("C13", "from_tangent_point_on_tangent", enum_incidence_error)
def case_incidence_error(ctx, cfg):
    import geometer as G
    from geometer.exceptions import IncidenceError

    (sub,) = cfg
    g = grid(1)
    pts = [g[i] for i in sub]
    P = [G.Point(np.array(p, dtype=float)) for p in pts]
    for k in range(4):
        # a tangent through the k-th point (and through no other): documented to raise IncidenceError
        for l in lattice(3, 2):
            on = [sum(a * b for a, b in zip(l, p)) == 0 for p in pts]
            if on[k] and sum(on) == 1:
                ctx.state((tuple(sub), k, tuple(l)))
                r, e = ctx.call(G.Conic.from_tangent, G.Line(np.array(l, dtype=float)), *P)
                ctx.trace()
                if not isinstance(e, IncidenceError):
                    ctx.fail(f"from_tangent:point-on-tangent:{'no-raise' if e is None else type(e).__name__}", "from_tangent", {"points": pts, "tangent": l, "point_on_tangent": k}, "IncidenceError", e if e is not None else r.array)
                    return
                break


@family("C13", "from_tangent_axes", enum_from_tangent2)
def case_from_tangent2(ctx, cfg):
    return case_from_tangent(ctx, cfg)


@family("C13", "from_tangent", enum_from_tangent)
def case_from_tangent(ctx, cfg):
    import geometer as G

    sub, l = cfg
    g = grid(1)
    pts = [P8[i - 100] if i >= 100 else g[i] for i in sub]
    ctx.state((tuple(sub), tuple(l)))
    P = [G.Point(np.array(p, dtype=float)) for p in pts]
    L = G.Line(np.array(l, dtype=float))
    c, e = ctx.call(G.Conic.from_tangent, L, *P)
    ctx.trace()
    inputs = {"points": pts, "tangent": l}
    if e is not None or type(c) is not G.Conic:
        ctx.fail(f"from_tangent:raises:{type(e).__name__ if e is not None else 'type'}", "from_tangent", inputs, "Conic", e if e is not None else type(c).__name__)
        return
    A = c.array.astype(complex)
    if not all(on_quadric(A, np.array(p, dtype=float), 1e-8) for p in pts):
        ctx.fail("from_tangent:contains-points", "from_tangent", inputs, "conic through the four points", c.array)
        return
    # restriction to the line: two points u, v of the line; binary form (alpha, beta, gamma); discriminant 0
    lv = np.array(l, dtype=float)
    u = np.cross(lv, [1.0, 2.0, 3.0])
    if np.linalg.norm(u) < 1e-9:
        u = np.cross(lv, [0.0, 1.0, 0.0])
    v = np.cross(lv, u)
    al, be, ga = u @ A @ u, 2 * (u @ A @ v), v @ A @ v
    D = be * be - 4 * al * ga
    scale = (np.linalg.norm(A) * np.linalg.norm(u) * np.linalg.norm(v)) ** 2
    ctx.tally("real-conic" if np.all(np.abs(np.imag(c.array)) < 1e-12) else "complex-conic")
    if abs(D) > 1e-8 * scale:
        ctx.fail("from_tangent:not-tangent", "from_tangent", inputs, "discriminant 0 on the line", {"conic": c.array, "discriminant": D})
        return
    r, e = ctx.call(c.is_tangent, L)
    if e is not None or not bool(r):
        ctx.tally("is_tangent-disagrees")  # judged under C14 (is_tangent), not here


# ---------------------------------------------------------------------------------------------------


def focal_conics(f1, f2, b):
    """The two conics with foci f1, f2 through b (ellipse: sum of distances, hyperbola: difference): matrices."""
    out = []
    d1 = math.dist(b, f1)
    d2 = math.dist(b, f2)
    for s in (d1 + d2, abs(d1 - d2)):
        if s < 1e-12:
            out.append(None)
            continue
        # 4 s^2 |X - f1|^2 = (s^2 + |f1|^2 - |f2|^2 - 2 X.(f1 - f2))^2   (both branches of +-)
        k = s * s + f1[0] ** 2 + f1[1] ** 2 - f2[0] ** 2 - f2[1] ** 2
        g = (2 * (f1[0] - f2[0]), 2 * (f1[1] - f2[1]))
        # left: 4 s^2 (x^2 + y^2 - 2 f1.X + |f1|^2); right: (k - g.X)^2
        A = np.zeros((3, 3))
        s2 = 4 * s * s
        A[0, 0] = s2 - g[0] ** 2
        A[1, 1] = s2 - g[1] ** 2
        A[0, 1] = A[1, 0] = -g[0] * g[1]
        A[0, 2] = A[2, 0] = -s2 * f1[0] + k * g[0]
        A[1, 2] = A[2, 1] = -s2 * f1[1] + k * g[1]
        A[2, 2] = s2 * (f1[0] ** 2 + f1[1] ** 2) - k * k
        out.append(A)
    return out


def enum_foci(tier, seed):
    pts = [(x, y) for x in range(-2, 3) for y in range(-2, 3)]
    for f1, f2 in itertools.combinations(pts[:: (1 if tier == "thorough" else 2)], 2):
        for b in [(3, 1), (0, 3), (-3, -2), (1, 4), (2, -3)]:
            # the boundary point must not lie on the focal axis (degenerate members of the confocal family)
            if (f2[0] - f1[0]) * (b[1] - f1[1]) - (f2[1] - f1[1]) * (b[0] - f1[0]) == 0:
                continue
            yield (f1, f2, b)


@family("C13", "from_foci", enum_foci)
def case_foci(ctx, cfg):
    import geometer as G

    f1, f2, b = cfg
    ctx.state((tuple(f1), tuple(f2), tuple(b)))
    c, e = ctx.call(G.Conic.from_foci, G.Point(*f1), G.Point(*f2), G.Point(*b))
    ctx.trace()
    inputs = {"f1": f1, "f2": f2, "bound": b}
    equi = (b[0] - f1[0]) ** 2 + (b[1] - f1[1]) ** 2 == (b[0] - f2[0]) ** 2 + (b[1] - f2[1]) ** 2
    ctx.tally("bound-equidistant-from-foci" if equi else "bound-generic")
    tag = ":bound-equidistant-from-foci" if equi else ""
    if e is not None:
        ctx.fail(f"from_foci:raises{tag}", "from_foci", inputs, "Conic", e)
        return
    A = np.real_if_close(c.array, tol=1e6)
    cands = [m for m in focal_conics(f1, f2, b) if m is not None]
    if not on_quadric(A, np.array([b[0], b[1], 1.0]), 1e-8) or not any(proj_eq(A, m, 1e-7) for m in cands):
        ctx.fail("from_foci:value" + tag, "from_foci", inputs, cands[0], c.array)
        return
    fo, e = ctx.call(lambda: c.foci)
    ctx.trace()
    want = [np.array([f1[0], f1[1], 1.0]), np.array([f2[0], f2[1], 1.0])]
    ok = e is None and len(fo) == 2 and ((proj_eq(fo[0].array, want[0], 1e-6) and proj_eq(fo[1].array, want[1], 1e-6)) or (proj_eq(fo[0].array, want[1], 1e-6) and proj_eq(fo[1].array, want[0], 1e-6)))
    if not ok:
        ctx.fail("foci:value", "foci", inputs, want, e if e is not None else [x.array for x in fo])


# ---------------------------------------------------------------------------------------------------


RADII = [0.5, 1, 2, 3]


def enum_round(tier, seed):
    for c in [(x, y) for x in range(-2, 3) for y in range(-2, 3)]:
        yield ("circle", c)
        yield ("ellipse", c)
    for c in [(x, y, z) for x in (-1, 0, 2) for y in (-1, 0, 1) for z in (-2, 0, 1)]:
        yield ("sphere", c)
    yield ("sphere2d", (1, -2))
    yield ("defaults", 0)


@family("C13", "circle_ellipse_sphere", enum_round)
def case_round(ctx, cfg):
    import geometer as G

    kind, c = cfg
    ctx.state((kind, tuple(c) if not isinstance(c, int) else c))
    half = [k / 2 for k in range(-12, 13)]
    if kind == "circle":
        for r in RADII:
            for w in (1, -2, -1):
                center = G.Point(np.array([w * c[0], w * c[1], w], dtype=float))
                ci, e = ctx.call(G.Circle, center, r)
                ctx.trace()
                inputs = {"center": c, "radius": r, "center_weight": w}
                want = np.array([[1, 0, -c[0]], [0, 1, -c[1]], [-c[0], -c[1], c[0] ** 2 + c[1] ** 2 - r * r]], dtype=float)
                if e is not None or not proj_eq(ci.array, want, 1e-10):
                    ctx.fail("circle:matrix", "Circle", inputs, want, e if e is not None else ci.array)
                    return
                pts = [(x, y) for x in half for y in half if abs(x - c[0]) <= r + 1 and abs(y - c[1]) <= r + 1]
                PC = G.PointCollection(np.array([[x, y, 1] for x, y in pts]))
                got, e = ctx.call(ci.contains, PC)
                exact = np.array([(F(x) - c[0]) ** 2 + (F(y) - c[1]) ** 2 == F(r) ** 2 for x, y in pts])
                ctx.tally("circle:locus-points", int(exact.sum()))
                if e is not None or not np.array_equal(np.asarray(got), exact):
                    ctx.fail("circle:contains", "contains", inputs, "exact locus", e if e is not None else "mismatch")
                    return
                # every circle passes through the circular points I = (-i, 1, 0) and J = (i, 1, 0); no other point at infinity
                for v, want_on in (((-1j, 1, 0), True), ((1j, 1, 0), True), ((1, 0, 0), False), ((1, 1, 0), False)):
                    got1, e = ctx.call(ci.contains, G.Point(np.array(v, dtype=complex)))
                    ctx.trace()
                    if e is not None or bool(got1) != want_on:
                        ctx.fail("circle:contains:point-at-infinity", "contains", {**inputs, "point": [str(x) for x in v]}, want_on, e if e is not None else bool(got1))
                        return
                props = {"radius": r, "area": math.pi * r * r}
                for nm, wv in props.items():
                    v, e = ctx.call(lambda: getattr(ci, nm))
                    ctx.trace()
                    if e is not None or not num_eq(v, wv, 1e-9, 1e-9):
                        ctx.fail(f"circle:{nm}", nm, inputs, wv, e if e is not None else v)
                        return
                ce, e = ctx.call(lambda: ci.center)
                ctx.trace()
                if e is not None or not proj_eq(ce.array, np.array([c[0], c[1], 1.0]), 1e-8):
                    ctx.fail("circle:center", "center", inputs, [c[0], c[1], 1], e if e is not None else ce.array)
                    return
                # a circle derived from this one (after its centre / foci were read) has its own centre and radius
                for how, cd in (("translated", G.translation(3, -1) * ci), ("plus-point", ci + G.Point(3, -1))):
                    ce2, e = ctx.call(lambda: cd.center)
                    r2, e2 = ctx.call(lambda: cd.radius)
                    fo2, e3 = ctx.call(lambda: cd.foci)
                    ctx.trace(3)
                    if e or e2 or e3 or not proj_eq(ce2.array, np.array([c[0] + 3, c[1] - 1, 1.0]), 1e-8) or not num_eq(r2, r, 1e-9, 1e-9) or not proj_eq(fo2[0].array, np.array([c[0] + 3, c[1] - 1, 1.0]), 1e-7):
                        ctx.fail(f"circle:derived-after-queries:{how}", "center / radius / foci", inputs, [c[0] + 3, c[1] - 1, 1], e or e2 or e3 or [ce2.array, r2])
                        return
    elif kind == "ellipse":
        for (a, b), w in itertools.product(itertools.product(RADII, repeat=2), (1, -1, 3)):
            # the centre in several homogeneous representatives
            el, e = ctx.call(G.Ellipse, G.Point(np.array([w * c[0], w * c[1], w], dtype=float)), a, b)
            ctx.trace()
            inputs = {"center": c, "center_weight": w, "hradius": a, "vradius": b}
            # (x-cx)^2/a^2 + (y-cy)^2/b^2 = 1  ->  b^2 (x-cx)^2 + a^2 (y-cy)^2 - a^2 b^2 = 0
            A2, B2 = a * a, b * b
            want = np.array([[B2, 0, -B2 * c[0]], [0, A2, -A2 * c[1]], [-B2 * c[0], -A2 * c[1], B2 * c[0] ** 2 + A2 * c[1] ** 2 - A2 * B2]], dtype=float)
            if e is not None or not proj_eq(el.array, want, 1e-10):
                ctx.fail("ellipse:matrix", "Ellipse", inputs, want, e if e is not None else el.array)
                return
            pts = [(x, y) for x in half for y in half if abs(x - c[0]) <= a + 0.5 and abs(y - c[1]) <= b + 0.5]
            PC = G.PointCollection(np.array([[x, y, 1] for x, y in pts]))
            got, e = ctx.call(el.contains, PC)
            exact = np.array([F(b) ** 2 * (F(x) - c[0]) ** 2 + F(a) ** 2 * (F(y) - c[1]) ** 2 == F(a) ** 2 * F(b) ** 2 for x, y in pts])
            ctx.tally("ellipse:locus-points", int(exact.sum()))
            if e is not None or not np.array_equal(np.asarray(got), exact):
                ctx.fail("ellipse:contains", "contains", inputs, "exact locus", e if e is not None else "mismatch")
                return
            if a != b:
                fo, e = ctx.call(lambda: el.foci)
                ctx.trace()
                f = math.sqrt(abs(A2 - B2))
                want_f = [np.array([c[0] + f, c[1], 1.0]), np.array([c[0] - f, c[1], 1.0])] if a > b else [np.array([c[0], c[1] + f, 1.0]), np.array([c[0], c[1] - f, 1.0])]
                ok = e is None and len(fo) == 2 and any(proj_eq(fo[i].array, want_f[0], 1e-6) and proj_eq(fo[1 - i].array, want_f[1], 1e-6) for i in (0, 1))
                if not ok:
                    ctx.fail("ellipse:foci", "foci", inputs, want_f, e if e is not None else [x.array for x in fo])
                    return
    elif kind in ("sphere", "sphere2d"):
        n = len(c)
        for r in RADII:
            for dt, w in ((float, 1), (np.int64, 1), (float, -1), (np.int64, -1), (float, -3)):
                sp, e = ctx.call(G.Sphere, G.Point(np.array([w * x for x in c] + [w], dtype=dt)), r)
                ctx.trace()
                inputs = {"center": c, "center_weight": w, "radius": r, "center_dtype": np.dtype(dt).name}
                want = np.eye(n + 1)
                want[-1, :-1] = want[:-1, -1] = [-x for x in c]
                want[-1, -1] = sum(x * x for x in c) - r * r
                if e is not None or not proj_eq(sp.array, want, 1e-10):
                    ctx.fail("sphere:matrix", "Sphere", inputs, want, e if e is not None else sp.array)
                    return
                vol = {3: 4 / 3 * math.pi * r**3, 2: math.pi * r * r}[n]
                area = {3: 4 * math.pi * r * r, 2: 2 * math.pi * r}[n]
                for nm, wv in (("radius", r), ("volume", vol), ("area", area)):
                    v, e = ctx.call(lambda: getattr(sp, nm))
                    ctx.trace()
                    if e is not None or not num_eq(v, wv, 1e-9, 1e-9):
                        ctx.fail(f"sphere:{nm}", nm, inputs, wv, e if e is not None else v)
                        return
                ce, e = ctx.call(lambda: sp.center)
                if e is not None or not proj_eq(ce.array, np.array(list(c) + [1.0]), 1e-9):
                    ctx.fail("sphere:center", "center", inputs, list(c) + [1], e if e is not None else ce.array)
                    return
                if n == 3:
                    rng = [k / 2 for k in range(-8, 9)]
                    pts = [(x, y, z) for x in rng for y in rng for z in rng if abs(x - c[0]) <= r and abs(y - c[1]) <= r and abs(z - c[2]) <= r]
                    PC = G.PointCollection(np.array([[x, y, z, 1] for x, y, z in pts]))
                    got, e = ctx.call(sp.contains, PC)
                    exact = np.array([sum((F(u) - v_) ** 2 for u, v_ in zip(p, c)) == F(r) ** 2 for p in pts])
                    ctx.tally("sphere:locus-points", int(exact.sum()))
                    if e is not None or not np.array_equal(np.asarray(got), exact):
                        ctx.fail("sphere:contains", "contains", inputs, "exact locus", e if e is not None else "mismatch")
                        return
    else:
        # default arguments (shared default Point objects) still give the unit objects after everything above
        for nm, obj, want in (
            ("Circle()", G.Circle(), np.diag([1.0, 1, -1])),
            ("Ellipse()", G.Ellipse(), np.diag([1.0, 1, -1])),
            ("Sphere()", G.Sphere(), np.diag([1.0, 1, 1, -1])),
            ("Sphere(radius=0.5)", G.Sphere(radius=0.5), np.diag([1.0, 1, 1, -0.25])),
            ("Cylinder()", G.Cylinder(), np.diag([1.0, 1, 0, -1])),
            ("Cone()", G.Cone(), np.diag([1.0, 1, -1, 0])),
        ):
            ctx.trace()
            if not proj_eq(obj.array, want, 1e-9):
                ctx.fail("defaults:matrix", nm, {"constructor": nm}, want, obj.array)
                return


# ---------------------------------------------------------------------------------------------------


def enum_cone(tier, seed):
    dirs = lattice(3, 2)
    verts = [(0, 0, 0), (1, -1, 2)] if tier == "quick" else [(x, y, z) for x in (-1, 0, 1) for y in (-1, 0, 1) for z in (-1, 0, 1)]
    for v in verts:
        for d in dirs:
            yield ("cone", v, d)
            yield ("cylinder", v, d)
    # axes that are nearly, but not exactly, parallel to a coordinate axis (tilt 1e-3 .. 3e-3 rad): any shortcut for
    # "axis already vertical" has to be exact or use a tolerance on the right quantity
    for v in verts[:2]:
        for d in ((1, 0, 300), (0, 1, -1000), (1, -1, 500), (2, 1, 1000), (300, 0, 1), (1, 400, 0), (-1, 0, -400)):
            yield ("cone", v, d)
            yield ("cylinder", v, d)


def cone_matrix(v, d, r, s):
    """Exact circular double cone: vertex v, axis direction d, base centre v + s d, base radius r (floats)."""
    v, d = np.array(v, dtype=float), np.array(d, dtype=float)
    dd = d @ d
    h2 = s * s * dd
    Q = np.eye(3) - (1 + r * r / h2) * np.outer(d, d) / dd
    A = np.zeros((4, 4))
    A[:3, :3] = Q
    A[:3, 3] = A[3, :3] = -Q @ v
    A[3, 3] = v @ Q @ v
    return A


def cylinder_matrix(c, d, r):
    c, d = np.array(c, dtype=float), np.array(d, dtype=float)
    Q = np.eye(3) - np.outer(d, d) / (d @ d)
    A = np.zeros((4, 4))
    A[:3, :3] = Q
    A[:3, 3] = A[3, :3] = -Q @ c
    A[3, 3] = c @ Q @ c - r * r
    return A


@family("C13", "cone_cylinder", enum_cone)
def case_cone(ctx, cfg):
    import geometer as G

    kind, v, d = cfg
    ctx.state((kind, tuple(v), tuple(d)))
    octant = "".join("+" if x > 0 else "-" if x < 0 else "0" for x in d)
    ctx.tally(f"{kind}:axis-sign-pattern:{octant}")
    for r in (1, 2):
        if kind == "cone":
            for s in (1, 2):
                bc = tuple(a + s * b for a, b in zip(v, d))
                wv = (1, -1, 2)[(r + s) % 3]  # vertex and base centre in other homogeneous representatives as well
                q, e = ctx.call(G.Cone, G.Point(np.array([wv * x for x in v] + [wv], dtype=float)), G.Point(np.array([-x for x in bc] + [-1], dtype=float)) if wv != 1 else G.Point(*bc), r)
                ctx.trace()
                inputs = {"vertex": v, "base_center": bc, "radius": r, "vertex_weight": wv, "base_center_weight": -1 if wv != 1 else 1}
                want = cone_matrix(v, d, r, s)
                if e is not None or not proj_eq(q.array, want, 1e-8):
                    ctx.fail(f"cone:matrix:{type(e).__name__ if e is not None else 'value'}", "Cone", inputs, want, e if e is not None else q.array)
                    return
                # vertex on the cone, a base-circle point on it, the base centre off it
                dv = np.array(d, dtype=float)
                perp = np.cross(dv, [1.0, 0.3, -0.2])
                perp = perp / np.linalg.norm(perp) * r
                bp = np.array(bc, dtype=float) + perp
                onv, e1 = ctx.call(q.contains, G.Point(*v))
                onb, e2 = ctx.call(q.contains, G.Point(*bp))
                offc, e3 = ctx.call(q.contains, G.Point(*bc))
                if e1 or e2 or e3 or not bool(onv) or not bool(onb) or bool(offc):
                    ctx.fail("cone:contains", "contains", inputs, [True, True, False], e1 or e2 or e3 or [bool(onv), bool(onb), bool(offc)])
                    return
        else:
            wv = (1, -1)[r % 2]
            q, e = ctx.call(G.Cylinder, G.Point(np.array([wv * x for x in v] + [wv], dtype=float)), G.Point(*d), r)
            ctx.trace()
            inputs = {"center": v, "center_weight": wv, "direction": d, "radius": r}
            want = cylinder_matrix(v, d, r)
            if e is not None or not proj_eq(q.array, want, 1e-8):
                ctx.fail(f"cylinder:matrix:{type(e).__name__ if e is not None else 'value'}", "Cylinder", inputs, want, e if e is not None else q.array)
                return
