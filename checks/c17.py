"""C17: polytope measures equal closed forms; polytope equality ignores vertex order."""
from __future__ import annotations

import itertools
import math
from fractions import Fraction as F

import numpy as np

from checks import shapeslib as SL
from checks import xform as XF
from mc import exact as X
from mc.compare import num_eq, proj_eq
from mc.core import family, lattice


def P(G, v, w=1.0):
    return G.Point(np.array([float(x) * w for x in v] + [w]))


def enum_area(tier, seed):
    for name in SL.POLYGONS:
        for emb in ["2d"] + list(SL.EMBEDDINGS):
            yield (name, emb)


@family("C17", "polygon_area_centroid", enum_area)
def case_area(ctx, cfg):
    import geometer as G

    name, emb = cfg
    poly = SL.POLYGONS[name]
    A2 = abs(SL.shoelace(poly))
    cx, cy = SL.centroid(poly)
    if emb == "2d":
        scale = 1.0
        cen = [float(cx), float(cy), 1.0]
    else:
        n_ = SL.normal(emb)
        scale = math.sqrt(sum(x * x for x in n_))
        cen = [float(x) for x in SL.embed(emb, cx, cy)] + [1.0]
    want_area = float(A2) * scale
    polys = []
    for rname, verts in SL.rotations(poly):
        V = verts if emb == "2d" else [SL.embed(emb, *v) for v in verts]
        for w in ((1.0,) * len(V), tuple((1, 2, -1, 3)[i % 4] for i in range(len(V)))):
            ctx.state((name, emb, rname, w[1]))
            Pg = G.Polygon(*[P(G, v, wi) for v, wi in zip(V, w)])
            inputs = {"polygon": name, "embedding": emb, "vertices": V, "weights": w}
            a, e = ctx.call(lambda: Pg.area)
            ctx.trace()
            if e is not None or not num_eq(a, want_area, 1e-9, 1e-9):
                ctx.fail(f"area:{'2d' if emb == '2d' else '3d'}:{'convex' if name in ('square', 'rectangle', 'triangle_ccw', 'triangle_cw', 'quad_skew', 'pentagon', 'triangle_obtuse') else 'non-convex'}", "area", inputs, want_area, e if e is not None else a)
                return
            c, e = ctx.call(lambda: Pg.centroid)
            ctx.trace()
            if e is not None or not proj_eq(c.array, np.array(cen), 1e-9):
                ctx.fail(f"centroid:{'2d' if emb == '2d' else '3d'}", "centroid", inputs, cen, e if e is not None else c.array)
                return
            # the polygon answers the same after its measures have been read (no mutation of cached planes)
            a2, e = ctx.call(lambda: Pg.area)
            if e is not None or not num_eq(a2, want_area, 1e-9, 1e-9):
                ctx.fail("area:second-read", "area", inputs, want_area, e if e is not None else a2)
                return
        polys.append(V)
    # all rotations as a PolygonCollection (areas element by element), read twice
    PC = G.PolygonCollection(*[G.PointCollection(np.array([list(map(float, r[k])) + [1.0] for r in polys])) for k in range(len(poly))])
    for rep in range(2):
        a, e = ctx.call(lambda: PC.area)
        ctx.trace(len(polys))
        if e is not None or np.shape(a) != (len(polys),) or not np.allclose(a, want_area, atol=1e-9):
            ctx.fail(f"area:collection:{'first' if rep == 0 else 'second'}-read", "area", {"polygon": name, "embedding": emb}, want_area, e if e is not None else a)
            return
    # history: measures are read, then the polygon is mapped by an affine map that is NOT area preserving (and by a
    # translation given as a point): the image answers for itself (area times |det| of the linear part in the plane,
    # centroid mapped), the original still answers as before
    if emb == "2d":
        P0 = G.Polygon(*[P(G, v) for v in polys[0]])
        _ = ctx.call(lambda: (P0.area, P0.centroid))
        maps = [
            ("scaling(2,3)", G.scaling(2, 3), lambda x, y: (2 * x, 3 * y), 6),
            ("shear+stretch", G.Transformation(np.array([[2.0, 1, 0], [0, 1, 0], [0, 0, 1]])), lambda x, y: (2 * x + y, y), 2),
            ("affine", G.Transformation(np.array([[1.0, 2, 3], [-1, 1, -2], [0, 0, 1]])), lambda x, y: (x + 2 * y + 3, -x + y - 2), 3),
            ("translation-by-point", None, lambda x, y: (x + 3, y - 2), 1),
        ]
        for label, t, f, det in maps:
            Pd, e = ctx.call(lambda: (t * P0) if t is not None else (P0 + G.Point(3, -2)))
            a, e2 = ctx.call(lambda: Pd.area) if e is None else (None, e)
            c, e3 = ctx.call(lambda: Pd.centroid) if e2 is None else (None, e2)
            ctx.trace(2)
            ctx.state((name, emb, "after-measures", label))
            wc = [float(v) for v in f(cx, cy)] + [1.0]
            if e3 is not None or not num_eq(a, float(A2) * det, 1e-9, 1e-9) or not proj_eq(c.array, np.array(wc), 1e-9):
                ctx.fail(f"area-centroid:after-measures-then-{label}", "area / centroid of the image", {"polygon": name, "map": label}, {"area": float(A2) * det, "centroid": wc}, e3 if e3 is not None else {"area": a, "centroid": c.array})
                return
        a, e = ctx.call(lambda: P0.area)
        if e is not None or not num_eq(a, want_area, 1e-9, 1e-9):
            ctx.fail("area:original-after-derivation", "area", {"polygon": name}, want_area, e if e is not None else a)
            return
    # isometric images have the same area
    if emb != "2d":
        for g in ("rot345", "trans", "swap"):
            t = G.Transformation(XF.mat_np(XF.gens(3)[g]))
            Pg = t * G.Polygon(*[P(G, v) for v in polys[0]])
            a, e = ctx.call(lambda: Pg.area)
            if e is not None or not num_eq(a, want_area, 1e-9, 1e-9):
                ctx.fail("area:isometry-invariance", "area", {"polygon": name, "embedding": emb, "isometry": g}, want_area, e if e is not None else a)
                return


# ---------------------------------------------------------------------------------------------------


def enum_simplex(tier, seed):
    pts2 = list(itertools.product(range(-2, 3), repeat=2))
    for a in pts2[:: (1 if tier == "thorough" else 2)]:
        yield ("triangle2d", a)
    pts3 = list(itertools.product(range(-1, 2), repeat=3))
    for a in pts3[:: (1 if tier == "thorough" else 3)]:
        yield ("tetrahedron", a)
        yield ("triangle3d", a)


@family("C17", "simplex_volume_circumcenter", enum_simplex)
def case_simplex(ctx, cfg):
    import geometer as G

    kind, a = cfg
    a = tuple(a)
    if kind == "triangle2d":
        pts = list(itertools.product(range(-2, 3), repeat=2))
        for b, c in itertools.combinations(pts, 2):
            d = (b[0] - a[0]) * (c[1] - a[1]) - (b[1] - a[1]) * (c[0] - a[0])
            if d == 0:
                continue
            ctx.state((kind, a, b, c))
            T = G.Triangle(P(G, a), P(G, b, 2.0), P(G, c, -1.0))
            inputs = {"a": a, "b": b, "c": c}
            for nm in ("volume", "area"):
                v, e = ctx.call(lambda: getattr(T, nm))
                ctx.trace()
                if e is not None or not num_eq(v, abs(d) / 2, 1e-9, 1e-9):
                    ctx.fail(f"triangle:{nm}", nm, inputs, abs(d) / 2, e if e is not None else v)
                    return
            # circumcentre by exact linear solve: |x-a|^2 = |x-b|^2 = |x-c|^2
            M = [[F(2 * (b[0] - a[0])), F(2 * (b[1] - a[1]))], [F(2 * (c[0] - a[0])), F(2 * (c[1] - a[1]))]]
            rhs = [F(b[0] ** 2 + b[1] ** 2 - a[0] ** 2 - a[1] ** 2), F(c[0] ** 2 + c[1] ** 2 - a[0] ** 2 - a[1] ** 2)]
            cc = X.solve(M, rhs)
            r, e = ctx.call(lambda: T.circumcenter)
            ctx.trace()
            if e is not None or not proj_eq(r.array, np.array([float(cc[0]), float(cc[1]), 1.0]), 1e-8):
                ctx.fail("triangle:circumcenter:2d", "circumcenter", inputs, [str(x) for x in cc], e if e is not None else r.array)
                return
    elif kind == "tetrahedron":
        pts = list(itertools.product(range(-1, 2), repeat=3))
        for b, c, d in itertools.combinations(pts, 3):
            det = X.idet4([list(a) + [1], list(b) + [1], list(c) + [1], list(d) + [1]])
            if det == 0:
                continue
            if (hash((b, c, d)) % (1 if ctx.tier == "thorough" else 4)) != 0:
                continue
            ctx.state((kind, a, b, c, d))
            S = G.Simplex(P(G, a), P(G, b), P(G, c, 2.0), P(G, d))
            v, e = ctx.call(lambda: S.volume)
            ctx.trace()
            if e is not None or not num_eq(v, abs(det) / 6, 1e-9, 1e-9):
                ctx.fail("simplex:volume:tetrahedron", "volume", {"vertices": [a, b, c, d]}, abs(det) / 6, e if e is not None else v)
                return
    else:
        pts = list(itertools.product(range(-1, 2), repeat=3))
        for b, c in itertools.combinations(pts, 2):
            u = [x - y for x, y in zip(b, a)]
            v_ = [x - y for x, y in zip(c, a)]
            cr = [u[1] * v_[2] - u[2] * v_[1], u[2] * v_[0] - u[0] * v_[2], u[0] * v_[1] - u[1] * v_[0]]
            if not any(cr):
                continue
            if (hash((b, c)) % (1 if ctx.tier == "thorough" else 3)) != 0:
                continue
            ctx.state((kind, a, b, c))
            want = math.sqrt(sum(x * x for x in cr)) / 2
            T = G.Triangle(P(G, a), P(G, b), P(G, c))
            inputs = {"a": a, "b": b, "c": c}
            for nm in ("volume", "area"):
                val, e = ctx.call(lambda: getattr(T, nm))
                ctx.trace()
                if e is not None or not num_eq(val, want, 1e-9, 1e-9):
                    ctx.fail(f"triangle3d:{nm}", nm, inputs, want, e if e is not None else val)
                    return
            # circumcentre: in the plane, equidistant
            uu, vv, uv = sum(x * x for x in u), sum(x * x for x in v_), sum(x * y for x, y in zip(u, v_))
            # x = a + s u + t v with 2 s uu + 2 t uv = uu ; 2 s uv + 2 t vv = vv
            s, t = X.solve([[F(2 * uu), F(2 * uv)], [F(2 * uv), F(2 * vv)]], [F(uu), F(vv)])
            cc = [F(x) + s * p + t * q for x, p, q in zip(a, u, v_)]
            r, e = ctx.call(lambda: T.circumcenter)
            ctx.trace()
            if e is not None or not proj_eq(r.array, np.array([float(x) for x in cc] + [1.0]), 1e-7):
                ctx.fail("triangle:circumcenter:3d", "circumcenter", inputs, [str(x) for x in cc], e if e is not None else r.array)
                return


# ---------------------------------------------------------------------------------------------------


def enum_segment(tier, seed):
    for a in itertools.product(range(-2, 3), repeat=2):
        yield (2, a)
    for a in itertools.product(range(-1, 2), repeat=3):
        yield (3, a)


@family("C17", "segment_length_midpoint", enum_segment)
def case_segment(ctx, cfg):
    import geometer as G

    dim, a = cfg
    a = tuple(a)
    k = 2 if dim == 2 else 1
    ends = [b for b in itertools.product(range(-k, k + 1), repeat=dim) if b != a]
    for i, b in enumerate(ends):
        ctx.state((dim, a, b))
        S = G.Segment(P(G, a, (1.0, -2.0)[i % 2]), P(G, b, (1.0, 3.0, -1.0)[i % 3]))
        want = math.dist(a, b)
        L, e = ctx.call(lambda: S.length)
        ctx.trace()
        inputs = {"a": a, "b": b}
        if e is not None or not num_eq(L, want, 1e-9, 1e-9):
            ctx.fail(f"segment:length:{dim}d", "length", inputs, want, e if e is not None else L)
            return
        m, e = ctx.call(lambda: S.midpoint)
        ctx.trace()
        wm = np.array([(x + y) / 2 for x, y in zip(a, b)] + [1.0])
        line_kind = "axis-parallel" if sum(1 for x, y in zip(a, b) if x != y) == 1 else "generic"
        if e is not None or not proj_eq(m.array, wm, 1e-8):
            ctx.fail(f"segment:midpoint:{dim}d:{line_kind}:{type(e).__name__ if e is not None else 'value'}", "midpoint", inputs, wm, e if e is not None else m.array)
            return
    SC = G.SegmentCollection(G.PointCollection(np.array([list(map(float, a)) + [1.0]] * len(ends))), G.PointCollection(np.array([list(map(float, b)) + [1.0] for b in ends])))
    L, e = ctx.call(lambda: SC.length)
    m, e2 = ctx.call(lambda: SC.midpoint)
    ctx.trace(2 * len(ends))
    if e is not None or e2 is not None or not np.allclose(L, [math.dist(a, b) for b in ends], atol=1e-9) or not all(proj_eq(m.array[i], np.array([(x + y) / 2 for x, y in zip(a, b)] + [1.0]), 1e-8) for i, b in enumerate(ends)):
        ctx.fail(f"segmentcollection:length-midpoint:{dim}d", "length/midpoint", {"a": a}, "elementwise", e or e2 or "mismatch")


# ---------------------------------------------------------------------------------------------------


def enum_regular(tier, seed):
    centres2 = [(0, 0), (1, 0), (0, -2), (3, 2), (-1, -1)]
    for c in centres2:
        for n in range(3, 9):
            for r in (1, 2, 0.5):
                yield (2, c, n, r, None)
    centres3 = [(0, 0, 0), (1, 2, -1), (0, 0, 3)]
    axes = [(0, 0, 1), (1, 0, 0), (1, 1, 1), (1, -2, 2), (0, -1, 1)]
    for c in centres3:
        for ax in axes:
            for n in (3, 4, 5, 6, 8):
                yield (3, c, n, 2, ax)


@family("C17", "regular_polygon", enum_regular)
def case_regular(ctx, cfg):
    import geometer as G

    dim, c, n, r, ax = cfg
    ctx.state((dim, tuple(c), n, r, ax if ax is None else tuple(ax)))
    ctx.tally("centre-at-origin" if not any(c) else "centre-off-origin")
    inputs = {"center": c, "radius": r, "n": n, "axis": ax}
    if dim == 2:
        Pg, e = ctx.call(G.RegularPolygon, G.Point(*c), r, n)
    else:
        Pg, e = ctx.call(G.RegularPolygon, G.Point(*c), r, n, G.Point(*ax))
    ctx.trace()
    if e is not None:
        ctx.fail(f"regular:constructor:{type(e).__name__}", "RegularPolygon", inputs, "polygon", e)
        return
    V = Pg.normalized_array[:, :-1]
    cv = np.array(c, dtype=float)
    ok = V.shape == (n, dim) and np.allclose(np.linalg.norm(V - cv, axis=1), r, atol=1e-9)
    if ok:
        side = 2 * r * math.sin(math.pi / n)
        ok = np.allclose(np.linalg.norm(V - np.roll(V, -1, axis=0), axis=1), side, atol=1e-9)
    if ok and dim == 3:
        ok = np.allclose((V - cv) @ np.array(ax, dtype=float), 0, atol=1e-9)
    if not ok:
        ctx.fail("regular:vertices", "RegularPolygon", inputs, "n points on the circle around the centre, equal sides", Pg.array)
        return
    for nm, want in (("radius", r), ("inradius", r * math.cos(math.pi / n))):
        v, e = ctx.call(lambda: getattr(Pg, nm))
        ctx.trace()
        if e is not None or not num_eq(v, want, 1e-8, 1e-8):
            ctx.fail(f"regular:{nm}", nm, inputs, want, e if e is not None else v)
            return
    ce, e = ctx.call(lambda: Pg.center)
    ctx.trace()
    if e is not None or not proj_eq(ce.array, np.array(list(c) + [1], dtype=float), 1e-9):
        ctx.fail("regular:center", "center", inputs, list(c) + [1], e if e is not None else ce.array)
        return
    a, e = ctx.call(lambda: Pg.area)
    want = n * r * r * math.sin(2 * math.pi / n) / 2
    if e is not None or not num_eq(a, want, 1e-8, 1e-8):
        ctx.fail("regular:area", "area", inputs, want, e if e is not None else a)
        return
    # the image under an isometry whose MATRIX is another homogeneous representative (k * M): the vertices of the image then
    # carry the weight k, and centre / radius / inradius must still be the Euclidean ones (round 13, R13f_a)
    if dim == 2:
        iso, e = ctx.call(lambda: G.translation(3, -1) * G.rotation(math.pi / 2))
    else:
        iso, e = ctx.call(lambda: G.translation(1, -1, 2) * G.rotation(math.atan2(4, 3), G.Point(1, 2, 2)))
    if e is not None:
        return
    M = np.array(iso.array, dtype=float)
    M = M / M[-1, -1]
    cimg = M @ np.array(list(c) + [1], dtype=float)
    for k in (2.0, -1.0, 0.5):
        q, e = ctx.call(lambda: G.Transformation(k * M) * Pg)
        ctx.trace()
        if e is not None:
            ctx.fail(f"regular:image:{type(e).__name__}", "t*RegularPolygon", {**inputs, "matrix_factor": k}, "polygon", e)
            return
        if type(q) is not G.RegularPolygon:
            continue  # the kind of the image is C06's concern; the measures below are only defined on RegularPolygon
        for nm, want in (("radius", r), ("inradius", r * math.cos(math.pi / n))):
            v, e = ctx.call(lambda: getattr(q, nm))
            if e is not None or not num_eq(v, want, 1e-8, 1e-8):
                ctx.fail(f"regular:image:{nm}", nm, {**inputs, "matrix_factor": k}, want, e if e is not None else v)
                return
        ce, e = ctx.call(lambda: q.center)
        if e is not None or not proj_eq(ce.array, cimg, 1e-9):
            ctx.fail("regular:image:center", "center", {**inputs, "matrix_factor": k}, cimg, e if e is not None else ce.array)
            return
        a, e = ctx.call(lambda: q.area)
        if e is not None or not num_eq(a, n * r * r * math.sin(2 * math.pi / n) / 2, 1e-8, 1e-8):
            ctx.fail("regular:image:area", "area", {**inputs, "matrix_factor": k}, n * r * r * math.sin(2 * math.pi / n) / 2, e if e is not None else a)
            return


# ---------------------------------------------------------------------------------------------------


def enum_cuboid(tier, seed):
    corners = [(0, 0, 0), (1, -1, 2)]
    edges = [((2, 0, 0), (0, 1, 0), (0, 0, 3)), ((1, 1, 0), (-1, 1, 0), (0, 0, 2)), ((1, 2, 2), (2, 1, -2), (2, -2, 1)), ((1, 0, 0), (1, 1, 0), (0, 1, 2)), ((2, 0, 1), (0, 1, 0), (-1, 0, 2))]
    for c in corners:
        for ed in edges:
            yield (c, ed)


def cross(u, v):
    return [u[1] * v[2] - u[2] * v[1], u[2] * v[0] - u[0] * v[2], u[0] * v[1] - u[1] * v[0]]


@family("C17", "cuboid_area_faces", enum_cuboid)
def case_cuboid(ctx, cfg):
    import geometer as G

    c, (x, y, z) = cfg
    ctx.state((tuple(c), tuple(map(tuple, (x, y, z)))))
    add = lambda p, q: tuple(a + b for a, b in zip(p, q))  # noqa: E731
    C = G.Cuboid(G.Point(*c), G.Point(*add(c, x)), G.Point(*add(c, y)), G.Point(*add(c, z)))
    nrm = lambda v: math.sqrt(sum(t * t for t in v))  # noqa: E731
    faces = [nrm(cross(y, z)), nrm(cross(x, z)), nrm(cross(x, y))]
    want = 2 * sum(faces)
    ortho = all(sum(a * b for a, b in zip(p, q)) == 0 for p, q in ((x, y), (y, z), (x, z)))
    ctx.tally("orthogonal-edges" if ortho else "sheared")
    inputs = {"corner": c, "edges": [x, y, z]}
    a, e = ctx.call(lambda: C.area)
    ctx.trace()
    if e is not None or not num_eq(a, want, 1e-8, 1e-8):
        ctx.fail("cuboid:area", "area", inputs, want, e if e is not None else a)
        return
    fa, e = ctx.call(lambda: C.faces.area)
    ctx.trace()
    if e is not None or not np.allclose(sorted(np.asarray(fa)), sorted(faces * 2), atol=1e-8):
        ctx.fail("cuboid:face-areas", "faces.area", inputs, sorted(faces * 2), e if e is not None else fa)
        return
    a2, e = ctx.call(lambda: C.area)
    if e is not None or not num_eq(a2, want, 1e-8, 1e-8):
        ctx.fail("cuboid:area:second-read", "area", inputs, want, e if e is not None else a2)
        return
    # edges and vertices counts
    ed, e = ctx.call(lambda: C.edges)
    vs, e2 = ctx.call(lambda: C.vertices)
    if e is not None or e2 is not None or len(ed) != 12 or len(vs) != 8:
        ctx.fail("cuboid:edges-vertices", "edges/vertices", inputs, [12, 8], e or e2 or [len(ed), len(vs)])


# ---------------------------------------------------------------------------------------------------


def enum_eq(tier, seed):
    for name in SL.POLYGONS:
        yield ("polygon", name)
    yield ("segment", 0)
    yield ("polyhedron", 0)
    yield ("collections", 0)


@family("C17", "equality", enum_eq)
def case_eq(ctx, cfg):
    import geometer as G

    kind, name = cfg
    if kind == "polygon":
        poly = SL.POLYGONS[name]
        n = len(poly)
        for emb in ("2d", "generic"):
            V0 = poly if emb == "2d" else [SL.embed(emb, *v) for v in poly]
            A = G.Polygon(*[P(G, v) for v in V0])
            cyc = {tuple(v) for _, v in SL.rotations([tuple(x) for x in V0])}
            perms = itertools.permutations(range(n)) if n <= 5 else [tuple(np.roll(range(n), k)) for k in range(n)] + [tuple(np.roll(range(n), k)[::-1]) for k in range(n)] + [tuple([1, 0] + list(range(2, n))), tuple(list(range(n - 2)) + [n - 1, n - 2]), tuple([2, 1, 0] + list(range(3, n)))]
            for pm in perms:
                V = [V0[i] for i in pm]
                want = tuple(map(tuple, V)) in cyc
                ctx.state((name, emb, pm))
                ctx.tally(f"equal:{want}")
                B = G.Polygon(*[P(G, v, (1.0, -2.0, 3.0)[k % 3]) for k, v in enumerate(V)])
                for x, y, tag in ((A, B, "a==b"), (B, A, "b==a")):
                    r, e = ctx.call(lambda: x == y)
                    ctx.trace()
                    if e is not None or bool(r) != want:
                        ctx.fail(f"eq:polygon:{'rotation-or-reversal' if want else 'other-permutation'}", "==", {"polygon": name, "embedding": emb, "permutation": pm, "order": tag}, want, e if e is not None else bool(r))
                        return
            # a moved vertex
            V = [list(v) for v in V0]
            V[1] = [V[1][0] + 1] + V[1][1:]
            B = G.Polygon(*[P(G, v) for v in V]) if emb == "2d" else None
            if B is not None:
                r, e = ctx.call(lambda: A == B)
                if e is not None or bool(r):
                    ctx.fail("eq:polygon:moved-vertex", "==", {"polygon": name}, False, e if e is not None else bool(r))
                    return
            # a vertex moved by 2^-20 (1e-6: a hundred times the library's tolerance, exactly representable), polygon
            # listed in the same order, rotated, and reversed: not the same polytope
            for label, order in (("same-order", list(range(n))), ("rotated", list(np.roll(range(n), 1))), ("reversed", list(range(n))[::-1]), ("reversed-rotated", list(np.roll(range(n), 2)[::-1]))):
                for k in (0, n - 1):
                    Vn = [list(map(float, V0[i])) for i in order]
                    Vn[k][0] += 2.0**-20
                    Bn = G.Polygon(*[G.Point(np.array(v + [1.0])) for v in Vn])
                    for x, y, tag in ((A, Bn, "a==b"), (Bn, A, "b==a")):
                        r, e = ctx.call(lambda: x == y)
                        ctx.trace()
                        ctx.state((name, emb, "nearly-equal", label, k, tag))
                        if e is not None or bool(r):
                            ctx.fail(f"eq:polygon:nearly-equal:{label}", "==", {"polygon": name, "embedding": emb, "listed": label, "moved_vertex": k, "by": 2.0**-20, "order": tag}, False, e if e is not None else bool(r))
                            return
    elif kind == "segment":
        for moved, rev in itertools.product((0, 1), (False, True)):
            ends = [[0.0, 0.0, 1.0], [2.0, 1.0, 1.0]]
            ends2 = [list(v) for v in ends]
            ends2[moved][1] += 2.0**-20
            if rev:
                ends2 = ends2[::-1]
            r, e = ctx.call(lambda: G.Segment(G.Point(np.array(ends[0])), G.Point(np.array(ends[1]))) == G.Segment(G.Point(np.array(ends2[0])), G.Point(np.array(ends2[1]))))
            ctx.trace()
            ctx.state(("segment", "nearly-equal", moved, rev))
            if e is not None or bool(r):
                ctx.fail(f"eq:segment:nearly-equal:{'reversed' if rev else 'same-order'}", "==", {"moved_end": moved, "by": 2.0**-20, "reversed": rev}, False, e if e is not None else bool(r))
                return
        a, b, c = (0, 0), (2, 1), (2, 2)
        S = G.Segment(P(G, a), P(G, b))
        tests = [(G.Segment(P(G, b, 2.0), P(G, a, -1.0)), True), (G.Segment(P(G, a), P(G, c)), False), (G.Segment(P(G, a, 3.0), P(G, b)), True)]
        for T, want in tests:
            r, e = ctx.call(lambda: S == T)
            ctx.trace()
            ctx.state(("segment", T.array.tobytes()))
            if e is not None or bool(r) != want:
                ctx.fail("eq:segment", "==", {"s": S.array, "t": T.array}, want, e if e is not None else bool(r))
                return
        # segment collections
        mkS = lambda segs: G.SegmentCollection(G.PointCollection(np.array([list(map(float, a_)) + [1.0] for a_, b_ in segs])), G.PointCollection(np.array([list(map(float, b_)) + [1.0] for a_, b_ in segs])))  # noqa: E731
        s1, s2, s3 = ((0, 0), (2, 1)), ((1, 1), (1, 4)), ((-1, 2), (3, 0))
        S1 = mkS([s1, s2, s3])
        for other, want, tag in ((mkS([s1[::-1], s2, s3[::-1]]), False, "some-elements-reversed"), (mkS([s1[::-1], s2[::-1], s3[::-1]]), True, "all-elements-reversed"), (mkS([s3, s2, s1]), False, "listed-backwards"), (mkS([s1, s2, s3]), True, "same")):
            r, e = ctx.call(lambda: S1 == other)
            ctx.trace()
            ctx.state(("segmentcollection", tag))
            if tag == "some-elements-reversed":
                continue  # element-wise equality of a vectorised comparison with mixed orientations is not specified
            if e is not None or bool(r) != want:
                ctx.fail(f"eq:segmentcollection:{tag}", "==", {"case": tag}, want, e if e is not None else bool(r))
                return
    elif kind == "polyhedron":
        C = G.Cuboid(G.Point(0, 0, 0), G.Point(2, 0, 0), G.Point(0, 1, 0), G.Point(0, 0, 3))
        arr = C.array
        for pm in itertools.permutations(range(6)):
            if hash(pm) % (1 if ctx.tier == "thorough" else 9):
                continue
            B = G.Polyhedron(arr[list(pm)].copy())
            # rotate the vertex cycle of every face by a different amount, reverse some
            b2 = B.array.copy()
            for fi in range(6):
                b2[fi] = np.roll(b2[fi], fi % 4, axis=0)
                if fi % 2:
                    b2[fi] = b2[fi][::-1]
            B2 = G.Polyhedron(b2)
            ctx.state(("polyhedron", pm))
            for T, tag in ((B, "faces-permuted"), (B2, "faces-permuted-and-rotated")):
                for x, y in ((C, T), (T, C)):
                    r, e = ctx.call(lambda: x == y)
                    ctx.trace()
                    if e is not None or not bool(r):
                        ctx.fail(f"eq:polyhedron:{tag}", "==", {"face_permutation": pm}, True, e if e is not None else bool(r))
                        return
        D = G.Cuboid(G.Point(0, 0, 0), G.Point(2, 0, 0), G.Point(0, 1, 0), G.Point(0, 0, 2))
        r, e = ctx.call(lambda: C == D)
        if e is not None or bool(r):
            ctx.fail("eq:polyhedron:different", "==", {"other": "different height"}, False, e if e is not None else bool(r))
            return
        # same shape, different face SETS: face i replaced by a second copy of face j (one face missing, one repeated); ==
        # must be false in BOTH orders, and such a polyhedron still equals itself with its faces listed in another order
        C0 = G.Polyhedron(arr.copy())  # the same class on both sides: with a Cuboid on the right Python asks the subclass first
        for i, j in itertools.permutations(range(6), 2):
            a2 = arr.copy()
            a2[i] = arr[j]
            E = G.Polyhedron(a2)
            E2 = G.Polyhedron(a2[::-1].copy())
            ctx.state(("polyhedron-repeated-face", i, j))
            for x, y, want, tag in ((C0, E, False, "full==repeated"), (E, C0, False, "repeated==full"), (C, E, False, "cuboid==repeated"), (E, C, False, "repeated==cuboid"), (E, E2, True, "repeated==itself-relisted"), (E2, E, True, "relisted==repeated")):
                r, e = ctx.call(lambda: x == y)
                ctx.trace()
                if e is not None or bool(r) != want:
                    ctx.fail(f"eq:polyhedron:{tag}", "==", {"replaced_face": i, "by_copy_of_face": j}, want, e if e is not None else bool(r))
                    return
    else:
        sq = [(0, 0), (2, 0), (2, 2), (0, 2)]
        tri = [(0, 0), (4, 0), (0, 3)]
        for poly in (sq, tri):
            rots = [v for _, v in SL.rotations(poly)]
            A = G.PolygonCollection(*[G.PointCollection(np.array([list(map(float, poly[k])) + [1.0]] * len(rots))) for k in range(len(poly))])
            B = G.PolygonCollection(*[G.PointCollection(np.array([list(map(float, r[k])) + [1.0] for r in rots])) for k in range(len(poly))])
            ctx.state(("collections", len(poly)))
            # a collection equals another one iff every element does; here each element is a rotation/reversal, but
            # the same roll must work for all elements in the library's vectorised test -> only judge element-wise
            # whole collections: equal when every element is the same polygon (each given reversed), different when the
            # elements are swapped
            p1 = [tuple(v) for v in poly]
            p2 = [(x + 5, y - 1) for x, y in poly]
            mk = lambda lists: G.PolygonCollection(*[G.PointCollection(np.array([list(map(float, l[k])) + [1.0] for l in lists])) for k in range(len(poly))])  # noqa: E731
            C1, C2, C3 = mk([p1, p2]), mk([p1[::-1], p2[::-1]]), mk([p2, p1])
            for x, y, want, tag in ((C1, C2, True, "elements-reversed"), (C1, C3, False, "elements-swapped"), (C3, C1, False, "elements-swapped"), (C1, mk([p1, p2]), True, "same")):
                r, e = ctx.call(lambda: x == y)
                ctx.trace()
                if e is not None or bool(r) != want:
                    ctx.fail(f"eq:polygoncollection:{tag}", "==", {"polygon": poly, "case": tag}, want, e if e is not None else bool(r))
                    return
            for i in range(len(rots)):
                r, e = ctx.call(lambda: A[i] == B[i])
                ctx.trace()
                if e is not None or not bool(r):
                    ctx.fail("eq:polygoncollection:element", "==", {"polygon": poly, "element": i}, True, e if e is not None else bool(r))
                    return
