"""C12: queries are pure - no call changes operands, shared constants or later answers.

Explicit-state exploration over a shared pool of objects: the state is a byte-level snapshot of every array reachable
from every pool object plus the module constants, the cached epsilon/delta arrays and the mutable default arguments.
 * closure: every action (catalogue operation instantiated on pool objects) is applied in the initial state and must
   lead back to the same state - the reachable graph is then the single initial state with |A| self-loops, which covers
   every finite sequence, provided answers only depend on the state;
 * that premise is checked differentially: after any action a1 (and the growing history of actions that followed), every
   action a2 sharing an operand must return what it returns on a freshly built pool;
 * derived objects (copy(), element, t*x, transposed, dual) are used as operands as well: a write through an alias shows up as
   a change of the original; queries on an object derived AFTER other queries must equal queries on a freshly derived one;
 * second pass with all pool arrays read-only: a write raises and pinpoints the line."""
from __future__ import annotations

import itertools
import traceback

import numpy as np

from checks import catalog as C
from checks.c03 import same_result
from mc.core import family

KINDS = [k for k in C.POOL if k != "NUM"]


def build_pool(G):
    """name -> object. Two singles per kind (int dtype; float with a non-normalised representative) and a collection."""
    pool = {}
    for kind in KINDS:
        specs = C.POOL[kind]
        pool[(kind, "s0")] = C.build(G, kind, specs[0], dtype=np.int64 if kind not in ("T2", "T3") else float)
        if C.ncomponents(kind) > 0:
            pool[(kind, "s1")] = C.build(G, kind, specs[1 % len(specs)], dtype=float, scale=(0, -2.0))
        else:
            pool[(kind, "s1")] = C.build(G, kind, specs[1 % len(specs)])
        if kind in ("P2", "P3"):
            # a float representative that is ALREADY normalised (weight exactly 1, not of unit length): the library's
            # normalisation shortcuts hand out the operand's own array for these (round 14, R14b_c)
            pool[(kind, "s2")] = C.build(G, kind, specs[0], dtype=float)
            pool[(kind, "s3")] = C.build(G, kind, next(sp for sp in specs if sp[-1] == 0), dtype=float)
        if kind in C.COLLECTABLE:
            pool[(kind, "c")] = C.build_collection(G, kind, [specs[i % len(specs)] for i in range(3)], (3,))
    return pool


def fingerprint(x, depth=0):
    from geometer.base import Tensor

    if isinstance(x, np.ndarray):
        return ("nd", x.dtype.str, x.shape, x.tobytes(), bool(x.flags.writeable))
    if isinstance(x, Tensor):
        if depth > 3:
            return ("tensor", "...")
        return ("tensor", type(x).__name__, tuple(sorted((k, fingerprint(v, depth + 1)) for k, v in x.__dict__.items())))
    if isinstance(x, (set, frozenset)):
        return ("set", tuple(sorted(x)))
    if isinstance(x, (list, tuple)):
        return ("seq", tuple(fingerprint(v, depth + 1) for v in x))
    if isinstance(x, dict):
        return ("dict", tuple(sorted((repr(k), fingerprint(v, depth + 1)) for k, v in x.items())))
    if isinstance(x, (int, float, complex, str, bool, type(None), np.generic)):
        return ("val", repr(x))
    return ("obj", type(x).__name__)


def snapshot(G, pool):
    from geometer import curve, point
    from geometer.base import KroneckerDelta, LeviCivitaTensor

    snap = {}
    for name, obj in pool.items():
        for attr, val in obj.__dict__.items():
            snap[("pool",) + name + (attr,)] = fingerprint(val)
    for nm, obj in (("I", point.I), ("J", point.J), ("infty", point.infty), ("infty_plane", point.infty_plane), ("absolute_conic", curve.absolute_conic)):
        for attr, val in obj.__dict__.items():
            snap[("const", nm, attr)] = fingerprint(val)
    for k, v in LeviCivitaTensor._cache.items():
        snap[("eps-cache", k)] = fingerprint(v)
    for k, v in KroneckerDelta._cache.items():
        snap[("delta-cache", k)] = fingerprint(v)
    for cls in (G.Ellipse, G.Circle, G.Sphere, G.Cone, G.Cylinder):
        for i, dflt in enumerate(cls.__init__.__defaults__ or ()):
            snap[("default", cls.__name__, i)] = fingerprint(dflt)
    return snap


def diff(before, after):
    """Keys whose fingerprint changed or vanished (new keys = new cached attributes / cache entries are only tallied)."""
    changed = [k for k in before if k in after and before[k] != after[k]]
    removed = [k for k in before if k not in after]
    added = [k for k in after if k not in before]
    return changed + removed, added


def actions():
    """All (operation, operand names) instantiations: every choice of the two single pool objects per argument, plus
    the all-collections variant."""
    acts = []
    for op in C.OPS:
        if not op.c12:
            continue
        choices = []
        for kind in op.kinds:
            if kind == "NUM":
                choices.append([("NUM", 2)])
            else:
                choices.append([(kind, "s0"), (kind, "s1")])
        combos = list(itertools.product(*choices))
        if len(combos) > 4:
            # bounded and declared: all-first, all-second and the two alternating assignments of the pool objects
            k = len(choices)
            combos = [tuple(c[i % 2 if pat == 2 else (i + 1) % 2 if pat == 3 else pat] if len(c) > 1 else c[0] for i, c in enumerate(choices)) for pat in (0, 1, 2, 3)]
            combos = list(dict.fromkeys(combos))
        if any(k in ("P2", "P3") for k in op.kinds):
            for tag in ("s2", "s3"):
                extra = tuple((k, tag) if k in ("P2", "P3") else c[0] for k, c in zip(op.kinds, choices))
                if op.configs is None or tag == "s2":
                    combos.append(extra)
        for combo in combos:
            acts.append((op.name, combo))
        if op.coll and all(k in C.COLLECTABLE for k in op.kinds):
            acts.append((op.name, tuple((k, "c") for k in op.kinds)))
    return acts


def run_action(ctx, G, pool, act):
    name, operands = act
    op = C.OP_BY_NAME[name]
    args = [o[1] if o[0] == "NUM" else pool[o] for o in operands]
    r, e = ctx.call(op.fn, G, *args)
    return e if e is not None else r


def materialise(r):
    """Results may be views of operands; keep an independent copy for later comparison."""
    import copy

    try:
        return copy.deepcopy(r)
    except Exception:  # noqa: BLE001
        return r


# ---------------------------------------------------------------------------------------------------


def enum_closure(tier, seed):
    acts = actions()
    n = len(acts)
    chunk = 12
    for i in range(0, n, chunk):
        yield ("closure", i, min(n, i + chunk))


@family("C12", "closure_and_later_answers", enum_closure)
def case_closure(ctx, cfg):
    import geometer as G

    _, lo, hi = cfg
    acts = actions()
    # baseline answers on freshly built pools (one pool per answer)
    baseline = {}

    def base(act):
        if act not in baseline:
            baseline[act] = materialise(run_action(ctx, G, build_pool(G), act))
        return baseline[act]

    for a1 in acts[lo:hi]:
        pool = build_pool(G)
        s0 = snapshot(G, pool)
        ctx.state(("a1", a1))
        r1 = run_action(ctx, G, pool, a1)
        ctx.trace()
        s1 = snapshot(G, pool)
        changed, added = diff(s0, s1)
        if added:
            ctx.tally("new-cached-attribute-or-cache-entry", len(added))
        if changed:
            ctx.fail(f"state-changed:{a1[0]}:{changed[0][0]}:{changed[0][-1] if changed[0][0] == 'pool' else changed[0][1]}", a1[0], {"action": a1, "changed": [list(map(str, k)) for k in changed[:4]]}, "operands, constants and caches unchanged", "changed")
            continue
        why = same_result(C.OP_BY_NAME[a1[0]].res, base(a1), r1)
        if why:
            ctx.fail(f"nondeterministic:{a1[0]}", a1[0], {"action": a1}, "same answer on two fresh pools", why)
            continue
        # every later query sharing an operand answers as on a fresh pool (the history grows along the way)
        shared = [a2 for a2 in acts if set(o for o in a2[1] if o[0] != "NUM") & set(o for o in a1[1] if o[0] != "NUM")]
        step = 1 if ctx.tier == "thorough" else 3
        off = (lo + acts.index(a1)) % step
        history = [a1]
        for a2 in shared[off::step]:
            r2 = run_action(ctx, G, pool, a2)
            ctx.trace()
            history.append(a2)
            why = same_result(C.OP_BY_NAME[a2[0]].res, base(a2), r2)
            if why:
                ctx.fail(f"later-answer-differs:{a2[0]}:after:{a1[0]}", a2[0], {"first_action": a1, "query": a2, "history_length": len(history)}, "the answer of the query on a fresh pool", why)
                break
        s2 = snapshot(G, pool)
        changed, added = diff(s0, s2)
        if changed:
            ctx.fail(f"state-changed-along-history:{changed[0][0]}:{changed[0][-1] if changed[0][0] == 'pool' else changed[0][1]}", "history", {"first_action": a1, "history_length": len(history), "changed": [list(map(str, k)) for k in changed[:4]]}, "unchanged", "changed")


# ---------------------------------------------------------------------------------------------------
# derived objects


def derivations(G):
    t2 = lambda: G.translation(1, -2)  # noqa: E731
    t3 = lambda: G.translation(1, -2, 3)  # noqa: E731
    return {
        "copy": lambda x, kind: x.copy(),
        "transformed": lambda x, kind: (t2() if kind in ("P2", "L2", "CON", "DCON", "T2", "SEG2", "POLY2", "TRI2") else t3()) * x,
        "copy-with-changed-entries": _changed_copy,
    }


def _changed_copy(x, kind):
    """A copy that received other coordinates through public item assignment (only for kinds without cached geometry:
    a polytope's cached line / plane is documented state of the constructor, not of item assignment)."""
    if kind in ("SEG2", "SEG3", "POLY2", "POLY3", "TRI2", "CUB"):
        raise NotImplementedError("not defined for polytopes")
    y = x.copy()
    y.array = np.array(x.array, dtype=float)
    idx = (0,) * y.array.ndim
    y[idx] = y.array[idx] + 3.0
    if kind in ("CON", "DCON", "Q3") and y.array.ndim == 2:
        pass  # (0, 0) is a diagonal entry: the matrix stays symmetric
    return y


def enum_derived(tier, seed):
    for kind in KINDS:
        for which in ("s0", "s1", "c"):
            if which == "c" and kind not in C.COLLECTABLE:
                continue
            yield (kind, which)


def unary_like_ops(kind):
    """Operations whose first argument is of this kind (the remaining arguments are taken from the pool)."""
    return [op for op in C.OPS if op.c12 and op.kinds[0] == kind]


@family("C12", "derived_objects", enum_derived)
def case_derived(ctx, cfg):
    import geometer as G

    kind, which = cfg
    ops = unary_like_ops(kind)
    ders = derivations(G)

    def call(op, first, pool):
        rest = []
        for k in op.kinds[1:]:
            rest.append(2 if k == "NUM" else pool[(k, "c" if which == "c" and op.coll and (k, "c") in pool else "s0")])
        r, e = ctx.call(op.fn, G, first, *rest)
        return e if e is not None else r

    ops = [op for op in ops if which != "c" or (op.coll and all(k in C.COLLECTABLE or k == "NUM" for k in op.kinds))]
    for dname, der in ders.items():
        if dname == "transformed" and kind in ("T2", "T3", "CUB") and which == "c":
            continue
        # (1) alias safety: operations on a derived object leave the original pool untouched
        pool = build_pool(G)
        s0 = snapshot(G, pool)
        try:
            y = der(pool[(kind, which)], kind)
        except Exception as e:  # noqa: BLE001  (e.g. a TransformationCollection cannot be built for this kind)
            ctx.tally(f"derivation-not-available:{dname}:{type(e).__name__}")
            continue
        for op in ops:
            call(op, y, pool)
            ctx.trace()
            ctx.state((kind, which, dname, op.name))
            changed, _ = diff(s0, snapshot(G, pool))
            if changed:
                ctx.fail(f"alias-write:{op.name}:on-{dname}", op.name, {"kind": kind, "object": which, "derived_by": dname, "changed": [list(map(str, k)) for k in changed[:4]]}, "original unchanged", "changed")
                pool = build_pool(G)
                s0 = snapshot(G, pool)
                y = der(pool[(kind, which)], kind)
        # (2) stale state: queries on an object derived after other queries equal queries on a freshly derived object
        fresh_answers = {}
        for q2 in ops:
            p = build_pool(G)
            fresh_answers[q2.name] = materialise(call(q2, der(p[(kind, which)], kind), p))
        for q1 in ops:
            pool = build_pool(G)
            x = pool[(kind, which)]
            call(q1, x, pool)
            y = der(x, kind)
            for q2 in ops:
                r = call(q2, y, pool)
                ctx.trace()
                why = same_result(q2.res, fresh_answers[q2.name], r)
                if why:
                    ctx.fail(f"stale-after-query:{q2.name}:on-{dname}:after:{q1.name}", q2.name, {"kind": kind, "object": which, "query_before_derivation": q1.name, "derived_by": dname, "query": q2.name}, "the answer for a freshly derived object", why)
                    break


# ---------------------------------------------------------------------------------------------------
# read-only pass


def enum_readonly(tier, seed):
    acts = actions()
    n = len(acts)
    chunk = 40
    for i in range(0, n, chunk):
        yield ("readonly", i, min(n, i + chunk))


def arm(G, pool):
    from geometer import curve, point
    from geometer.base import KroneckerDelta, LeviCivitaTensor, Tensor

    arrs = []

    def walk(x, depth=0):
        if isinstance(x, np.ndarray):
            if x.flags.writeable:
                try:
                    x.flags.writeable = False
                    arrs.append(x)
                except ValueError:
                    pass
        elif isinstance(x, Tensor) and depth < 4:
            for v in x.__dict__.values():
                walk(v, depth + 1)

    for o in pool.values():
        walk(o)
    for o in (point.I, point.J, point.infty, point.infty_plane, curve.absolute_conic):
        walk(o)
    for v in list(LeviCivitaTensor._cache.values()) + list(KroneckerDelta._cache.values()):
        walk(v)
    return arrs


def disarm(arrs):
    for a in arrs:
        try:
            a.flags.writeable = True
        except ValueError:
            pass


@family("C12", "read_only_operands", enum_readonly)
def case_readonly(ctx, cfg):
    import geometer as G

    _, lo, hi = cfg
    acts = actions()
    for act in acts[lo:hi]:
        pool = build_pool(G)
        baseline = run_action(ctx, G, build_pool(G), act)
        arrs = arm(G, pool)
        try:
            name, operands = act
            op = C.OP_BY_NAME[name]
            args = [o[1] if o[0] == "NUM" else pool[o] for o in operands]
            ctx.state(("ro", act))
            ctx.trace()
            try:
                ctx.transitions += 1
                op.fn(G, *args)
            except ValueError as e:
                if "read-only" in str(e):
                    tb = traceback.extract_tb(e.__traceback__)
                    site = next((f"{f.filename.split('/geometer/')[-1]}:{f.name}" for f in reversed(tb) if "/geometer/" in f.filename), "?")
                    ctx.fail(f"write-to-operand:{name}:{site}", name, {"action": act, "site": site}, "no write into operand / constant arrays", str(e))
                elif not isinstance(baseline, BaseException):
                    ctx.fail(f"read-only-changes-outcome:{name}", name, {"action": act}, "same outcome as with writeable operands", e)
            except Exception as e:  # noqa: BLE001
                if not isinstance(baseline, BaseException) or type(baseline) is not type(e):
                    ctx.fail(f"read-only-changes-outcome:{name}:{type(e).__name__}", name, {"action": act}, "same outcome as with writeable operands", e)
        finally:
            disarm(arrs)


# ---------------------------------------------------------------------------------------------------
# numeric kernels of geometer.utils on caller-owned arrays


def enum_kernels(tier, seed):
    for n in (2, 3, 4, 5):
        for batch in ((), (3,), (70,)):
            for dt in ("int64", "float64", "complex128"):
                yield (n, batch, dt)


@family("C12", "kernels_do_not_modify_arguments", enum_kernels)
def case_kernels(ctx, cfg):
    from geometer.utils import adjugate, det, hat_matrix, inv, is_multiple, matmul, matvec, null_space, orth, outer, roots

    n, batch, dt = cfg
    batch = tuple(batch)
    rng = np.arange(int(np.prod(batch + (n, n)))).reshape(batch + (n, n))
    A = ((rng * 7 + 3) % 11 - 5).astype(dt) + np.eye(n, dtype=dt) * 13
    if dt == "complex128":
        A = A + 1j * np.swapaxes(A, -1, -2).real * 0.5
    v = A[..., 0].copy()
    calls = [
        ("det", lambda: det(A)),
        ("adjugate", lambda: adjugate(A)),
        ("inv", lambda: inv(A)),
        ("null_space", lambda: null_space(A[..., :1, :], n - 1)),
        ("orth", lambda: orth(A, n)),
        ("matmul", lambda: matmul(A, A, transpose_a=True)),
        ("matvec", lambda: matvec(A, v)),
        ("outer", lambda: outer(v, v)),
        ("is_multiple", lambda: is_multiple(v, 2 * v, axis=-1)),
    ]
    if n == 3:
        calls.append(("hat_matrix", lambda: hat_matrix(v)))
    if not batch and n == 4:
        p = np.array([1, -6, 11, -6], dtype=dt)
        calls.append(("roots", lambda: roots(p)))
    A0, v0 = A.copy(), v.copy()
    results = {}
    for rep in range(2):
        for name, fn in calls:
            r, e = ctx.call(fn)
            ctx.trace()
            ctx.state((cfg, name, rep))
            if not (np.array_equal(A, A0) and np.array_equal(v, v0)):
                ctx.fail(f"kernel-modifies-argument:{name}:n{n}:{'batch>=64' if batch and batch[0] >= 64 else 'batch<64'}", name, {"n": n, "batch": batch, "dtype": dt}, "argument arrays unchanged", "modified")
                A[...] = A0
                v[...] = v0
                continue
            if e is None:
                key = name
                arr = np.asarray(r)
                if rep == 0:
                    results[key] = arr.copy()
                elif key in results and not (arr.shape == results[key].shape and np.allclose(arr, results[key], equal_nan=True)):
                    ctx.fail(f"kernel-second-call-differs:{name}", name, {"n": n, "batch": batch, "dtype": dt}, "same result on the same arguments", "differs")


# ---------------------------------------------------------------------------------------------------
# the cached epsilon / delta tensors: every order of instantiation gives the tensors of the definition


def _tensor_items():
    from geometer.base import KroneckerDelta, LeviCivitaTensor

    return [
        ("eps(2)", lambda: LeviCivitaTensor(2)),
        ("eps(3,contravariant)", lambda: LeviCivitaTensor(3, False)),
        ("eps(4)", lambda: LeviCivitaTensor(4)),
        ("delta(2,2)", lambda: KroneckerDelta(2, 2)),
        ("delta(2,3)", lambda: KroneckerDelta(2, 3)),
        ("delta(3,2)", lambda: KroneckerDelta(3, 2)),
        ("delta(3,1)", lambda: KroneckerDelta(3)),
        ("delta(4,2)", lambda: KroneckerDelta(4, 2)),
        ("delta(2,4)", lambda: KroneckerDelta(2, 4)),
        ("delta(3,3)", lambda: KroneckerDelta(3, 3)),
    ]


def enum_tensor_consts(tier, seed):
    n = len(_tensor_items())
    for i in range(n):
        yield ("after", i)
    yield ("with-geometry", 0)


@family("C12", "cached_epsilon_delta", enum_tensor_consts)
def case_tensor_consts(ctx, cfg):
    import geometer as G
    from mc.core import _reset_library_caches

    items = _tensor_items()
    base = {}
    for name, mk in items:
        _reset_library_caches()
        t = mk()
        base[name] = (t.array.copy(), t.tensor_shape)
    kind, i = cfg
    if kind == "after":
        first = items[i]
        for order in (list(items), list(items)[::-1]):
            _reset_library_caches()
            first[1]()
            for name, mk in order:
                t, e = ctx.call(mk)
                ctx.trace()
                ctx.state((first[0], name, order is items))
                if e is not None or t.array.shape != base[name][0].shape or not np.array_equal(t.array, base[name][0]) or t.tensor_shape != base[name][1]:
                    ctx.fail(f"tensor-constant:{name}:after:{first[0]}", name, {"first": first[0], "then": [x[0] for x in order[: order.index((name, mk)) + 1]]}, list(base[name][0].shape), e if e is not None else list(t.array.shape))
                    return
    else:
        # geometric operations in between must not change the cached arrays either
        _reset_library_caches()
        for name, mk in items:
            mk()
        pool = build_pool(G)
        for act in actions()[::9]:
            run_action(ctx, G, pool, act)
            ctx.trace()
        for name, mk in items:
            t, e = ctx.call(mk)
            ctx.state(("with-geometry", name))
            if e is not None or not np.array_equal(t.array, base[name][0]):
                ctx.fail(f"tensor-constant:{name}:after-geometry", name, {"after": "every 9th pool action"}, "definition", e if e is not None else "changed")
                return


# ---------------------------------------------------------------------------------------------------
# an in-place write (the public item assignment x[...] = new coordinates) between two queries on the same object: the second
# query answers for the new coordinates, exactly as an object that received the same assignment before its first query.
# Only kinds that consist of their coordinate array alone (polytopes and the bound quadric classes compute supporting
# lines / planes / parameters at construction time, so writing into their arrays is outside what they support).

WRITE_KINDS = ("P2", "P3", "L2", "E3", "L3", "CON", "Q3", "T2", "T3")


def _other_coordinates(arr, kind):
    """Coordinates of a DIFFERENT valid object of the same kind and dtype (a coordinate permutation of the same entries)."""
    a = np.asarray(arr)
    if kind in ("P2", "P3", "L2", "E3"):
        return np.roll(a, 1, axis=-1).copy()
    perm = np.roll(np.arange(a.shape[-1]), 1)
    if kind in ("T2", "T3"):
        return a[..., perm, :].copy()  # rows permuted: still invertible
    return a[..., perm, :][..., :, perm].copy()  # P A P^T: symmetric stays symmetric, a line matrix stays a line matrix


def enum_write(tier, seed):
    for kind in WRITE_KINDS:
        for which in ("s0", "s1"):
            yield (kind, which)


@family("C12", "in_place_write_between_queries", enum_write)
def case_write(ctx, cfg):
    import geometer as G

    kind, which = cfg
    ops = [op for op in unary_like_ops(kind) if all(k in WRITE_KINDS or k == "NUM" for k in op.kinds)]

    def call(op, first, pool):
        rest = [2 if k == "NUM" else pool[(k, "s0")] for k in op.kinds[1:]]
        r, e = ctx.call(op.fn, G, first, *rest)
        return e if e is not None else r

    probe = build_pool(G)
    if (kind, which) not in probe:
        return
    fresh_answers = {}
    for q2 in ops:
        p = build_pool(G)
        x = p[(kind, which)]
        x[...] = _other_coordinates(x.array, kind)
        fresh_answers[q2.name] = materialise(call(q2, x, p))
    for q1 in ops:
        pool = build_pool(G)
        x = pool[(kind, which)]
        call(q1, x, pool)  # first query
        x[...] = _other_coordinates(x.array, kind)  # in-place write
        for q2 in ops:
            r = call(q2, x, pool)
            ctx.trace()
            ctx.state((kind, which, q1.name, q2.name))
            fa = fresh_answers[q2.name]
            if isinstance(fa, BaseException) or isinstance(r, BaseException):
                if type(fa) is not type(r):
                    ctx.fail(f"stale-after-write:{q2.name}:after:{q1.name}:exception-differs", q2.name, {"kind": kind, "object": which, "query_before_write": q1.name, "query": q2.name}, repr(fa), repr(r))
                    return
                continue
            why = same_result(q2.res, fa, r)
            if why:
                ctx.fail(f"stale-after-write:{q2.name}:after:{q1.name}", q2.name, {"kind": kind, "object": which, "query_before_write": q1.name, "query": q2.name}, "the answer for an object that received the same coordinates before its first query", why)
                return
