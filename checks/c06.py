"""C06: transformations act as a group on every kind of object.

Explicit-state BFS over words in {s, t, s^-1, t^-1}: a state is the canonical exact matrix of the word; every
transition applies the real letter to the real objects of the parent state and compares with the exact action of the
word's matrix (stepwise s*(t*x), composed (s*t)*x, inverse round trip, class preservation, cached lines/planes)."""
from __future__ import annotations

import itertools
from collections import deque

import numpy as np

from checks import xform as XF
from mc import exact as X
from mc.compare import proj_eq
from mc.core import family


def enum_words(tier, seed):
    for dim in (2, 3):
        names = list(XF.gens(dim))
        if tier == "quick":
            for s, t in XF.PAIRS_QUICK:
                yield (dim, s, t, 4)
        else:
            # thorough: every pair of generators; real pairs at depth 5, pairs with a complex generator (exact
            # arithmetic over Q(i) is slow) at depth 4
            cplx = ("unitary", "cperm", "cshear")
            for s, t in [p for p in itertools.permutations(names, 2) if p[0] < p[1]] + [("det2@int", "shear@int"), ("detm3@int", "proj@int")]:
                yield (dim, s, t, 4 if (s in cplx or t in cplx) else 5)
            # well-conditioned quick pairs one level deeper still (the ill-conditioned projective ones would only
            # exercise the tolerance scaling at depth 6)
            for s, t in (("shear", "swap"), ("det2", "rot345"), ("trans", "rot345"), ("corner0", "trans"), ("det2@int", "detm3@int")):
                yield (dim, s, t, 6)


@family("C06", "word_bfs", enum_words)
def case_words(ctx, cfg):
    import geometer as G

    dim, sname, tname = cfg[:3]
    depth = cfg[3] if len(cfg) > 3 else 4
    Ms = {"s": XF.gen_matrix(dim, sname), "t": XF.gen_matrix(dim, tname)}
    Ms["S"] = X.inv(Ms["s"])
    Ms["T"] = X.inv(Ms["t"])
    # real letters: s, t constructed from the matrices; inverses through the library's own inverse()
    real = {"s": XF.real_t(G, dim, sname), "t": XF.real_t(G, dim, tname)}
    for L, l in (("S", "s"), ("T", "t")):
        inv, e = ctx.call(real[l].inverse)
        ctx.trace()
        if e is not None or type(inv) is not G.Transformation or not proj_eq(inv.array, XF.mat_np(Ms[L])):
            ctx.fail("inverse:value", "inverse", {"dim": dim, "generator": sname if l == "s" else tname}, XF.mat_np(Ms[L]), e if e is not None else inv.array)
            return
        real[L] = inv
    descs = XF.pool(dim)
    objs0 = [XF.build(G, d, float if i % 2 == 0 else np.int64) if d[0] not in ("circle", "sphere", "cuboid", "simplex") else XF.build(G, d) for i, d in enumerate(descs)]
    st0 = [XF.exact_state(G, d, o) for d, o in zip(descs, objs0)]
    for d, o, st in zip(descs, objs0, st0):
        bad = XF.agrees(o, st)
        assert bad is None, f"harness: constructed object does not match its exact description: {d} {bad}"
    n = dim + 1
    I = X.identity(n)
    ident = G.identity(dim)
    # identity leaves every object unchanged
    for d, o, st in zip(descs, objs0, st0):
        r, e = ctx.call(lambda: ident * o)
        ctx.trace()
        bad = "exception" if e is not None else (XF.agrees(r, st) or (None if type(r) is type(o) else "class"))
        if bad:
            ctx.fail(f"identity:{XF.kind_name(d)}:{bad.split(' at ')[0].split(' of ')[0]}", "identity*x", {"dim": dim, "object": d}, XF.state_json(st), e if e is not None else r.array)
            return

    root_key = XF.canon_matrix(I)
    seen = {root_key}
    ctx.state((dim, sname, tname, root_key))
    queue = deque([("", I, objs0, ident)])
    while queue:
        word, M, objs, T = queue.popleft()
        if len(word) >= depth or ctx.expired():
            continue
        for L in "sStT":
            M2 = X.matmul(Ms[L], M)
            key = XF.canon_matrix(M2)
            w2 = L + word  # the word acts as  L * (word * x)
            inputs = {"dim": dim, "s": sname, "t": tname, "word": w2}
            # composed transformation (s*t) as one object
            T2, e = ctx.call(lambda: real[L] * T)
            ctx.trace()
            if e is not None or type(T2) is not G.Transformation or not proj_eq(T2.array, XF.mat_np(M2)):
                ctx.fail("compose:matrix", "s*t", inputs, XF.mat_np(M2), e if e is not None else T2.array)
                return
            objs2 = []
            failed = False
            # comparison tolerance follows the exact condition number of the word: 1e-9 for well-conditioned words
            # (everything at depth <= 3), eps-level multiples of cond^2 for the ill-conditioned deep ones
            cond = float(np.linalg.cond(XF.mat_np(M2).astype(complex)))
            fw_tol = min(1e-5, max(1e-9, 1e-14 * cond * cond))
            for d, o_prev, o0, s0 in zip(descs, objs, objs0, st0):
                want = XF.act(M2, s0)
                kn = XF.kind_name(d)
                # stepwise: letter applied to the object reached so far
                r1, e1 = ctx.call(lambda: real[L] * o_prev)
                # composed: one transformation applied to the original object
                r2, e2 = ctx.call(lambda: T2 * o0)
                ctx.trace(2)
                for tag, r, e_ in (("stepwise", r1, e1), ("composed", r2, e2)):
                    bad = f"exception:{type(e_).__name__}" if e_ is not None else (XF.agrees(r, want, fw_tol) or (None if type(r) is type(o0) else "class"))
                    if bad:
                        ctx.fail(f"{tag}:{kn}:{bad.split(' at ')[0].split(' of ')[0].split(' ')[0]}", f"{tag} application", {**inputs, "object": d}, XF.state_json(want), e_ if e_ is not None else r.array)
                        failed = True
                        break
                if failed:
                    break
                objs2.append(r1)
            if failed:
                return
            # apply() is the same operation as *
            r3, e3 = ctx.call(real[L].apply, objs[0])
            if e3 is not None or XF.agrees(r3, XF.act(M2, st0[0])):
                ctx.fail("apply:differs-from-mul", "apply", inputs, "same as *", e3 if e3 is not None else r3.array)
                return
            ctx.tally("transition")
            if key in seen:
                ctx.tally("merged-equal-matrix")  # differential: reached from elsewhere, compared with the same exact state
                continue
            seen.add(key)
            ctx.state((dim, sname, tname, key))
            # inverse of the composed transformation undoes it on every object
            Ti, e = ctx.call(T2.inverse)
            ctx.trace()
            if e is not None or not proj_eq(Ti.array, XF.mat_np(X.inv(M2))):
                ctx.fail("inverse:of-word", "inverse", inputs, XF.mat_np(X.inv(M2)), e if e is not None else Ti.array)
                return
            # the round trip goes through floating point twice: its error is bounded by eps*cond(M)^2, so the
            # comparison tolerance follows the exact condition number of the word (1e-8 for every word of depth <= 4)
            rt_tol = max(1e-8, 1e-14 * cond * cond)
            if rt_tol > 1e-4:
                ctx.tally("roundtrip-skipped:ill-conditioned-word")
                queue.append((w2, M2, objs2, T2))
                continue
            for d, o2, s0 in zip(descs, objs2, st0):
                r4, e4 = ctx.call(lambda: Ti * o2)
                ctx.trace()
                bad = "exception" if e4 is not None else XF.agrees(r4, s0, rt_tol)
                if bad:
                    ctx.fail(f"inverse-roundtrip:{XF.kind_name(d)}", "t.inverse()*(t*x)", {**inputs, "object": d}, XF.state_json(s0), e4 if e4 is not None else r4.array)
                    return
            queue.append((w2, M2, objs2, T2))


# ---------------------------------------------------------------------------------------------------
# powers


def enum_pow(tier, seed):
    # |k| <= 12 in both tiers: the library evaluates t**k as ONE einsum over k operands without path optimisation,
    # whose cost grows like (dim+1)**(k+1) -- k = 13 already takes minutes per call, k = 20 does not terminate
    K = 12
    for dim in (2, 3):
        for g in XF.gens(dim):
            for k in range(-K, K + 1):
                yield (dim, g, k, "single")
        for k in range(-K, K + 1):
            yield (dim, "*", k, "collection")


def mat_pow(M, k):
    n = len(M)
    R = X.identity(n)
    B = M if k >= 0 else X.inv(M)
    for _ in range(abs(k)):
        R = X.matmul(B, R)
    return R


@family("C06", "powers", enum_pow)
def case_pow(ctx, cfg):
    import geometer as G

    dim, g, k, form = cfg
    gens = XF.gens(dim)
    ctx.state(cfg)
    ctx.tally(f"k{'<0' if k < 0 else '=0' if k == 0 else '>0'}:{form}")
    inputs = {"dim": dim, "generator": g, "k": k, "form": form}
    if form == "single":
        M = gens[g]
        t = G.Transformation(XF.mat_np(M))
        r, e = ctx.call(lambda: t**k)
        ctx.trace()
        want = XF.mat_np(mat_pow(M, k))
        if e is not None or type(r) is not G.Transformation or r.array.shape != want.shape or not proj_eq(r.array, want):
            ctx.fail(f"pow:single:{'negative' if k < 0 else 'zero' if k == 0 else 'positive'}", "t**k", inputs, want, e if e is not None else r.array)
            return
        # (t**k) * x  ==  k-fold application
        d = XF.pool(dim)[0]
        x = XF.build(G, d)
        y = x
        step = t if k >= 0 else t.inverse()
        for _ in range(abs(k)):
            y = step * y
        z, e = ctx.call(lambda: r * x)
        if e is not None or not proj_eq(z.array, y.array, 1e-8):
            ctx.fail("pow:k-fold-application", "(t**k)*x", inputs, y.array, e if e is not None else z.array)
    else:
        names = list(gens)
        Ms = [gens[nm] for nm in names]
        tc = G.TransformationCollection(np.stack([XF.mat_np(M) for M in Ms]))
        r, e = ctx.call(lambda: tc**k)
        ctx.trace(len(Ms))
        if e is not None or type(r) is not G.TransformationCollection or r.array.shape != tc.array.shape:
            ctx.fail("pow:collection:type-or-shape", "tc**k", inputs, list(tc.array.shape), e if e is not None else f"{type(r).__name__} {r.array.shape}")
            return
        for i, M in enumerate(Ms):
            want = XF.mat_np(mat_pow(M, k))
            if not proj_eq(r.array[i], want):
                ctx.fail(f"pow:collection:{'negative' if k < 0 else 'zero' if k == 0 else 'positive'}", "tc**k", {**inputs, "generator": names[i]}, want, r.array[i])
                return
        # (2, 4)-shaped collection
        if abs(k) <= 3:
            Ms8 = Ms[:8]
            tc2 = G.TransformationCollection(np.stack([XF.mat_np(M) for M in Ms8]).reshape(2, 4, dim + 1, dim + 1))
            r2, e2 = ctx.call(lambda: tc2**k)
            if e2 is not None or r2.array.shape != tc2.array.shape or not all(proj_eq(r2.array.reshape(-1, dim + 1, dim + 1)[i], XF.mat_np(mat_pow(M, k))) for i, M in enumerate(Ms8)):
                ctx.fail("pow:collection-2axes", "tc**k", inputs, "elementwise powers", e2 if e2 is not None else list(r2.array.shape))


# ---------------------------------------------------------------------------------------------------
# collections of transformations acting on single objects and collections


def enum_tcoll(tier, seed):
    for dim in (2, 3):
        yield (dim,)


@family("C06", "transformation_collections", enum_tcoll)
def case_tcoll(ctx, cfg):
    import geometer as G

    (dim,) = cfg
    gens = XF.gens(dim)
    names = list(gens)
    tc = G.TransformationCollection(np.stack([XF.mat_np(gens[nm]) for nm in names]))
    # inverse of a collection, composition of collections (position by position)
    ti, e = ctx.call(tc.inverse)
    ctx.trace(len(names))
    if e is not None or type(ti) is not G.TransformationCollection:
        ctx.fail("tcoll:inverse", "inverse", {"dim": dim}, "collection", e if e is not None else type(ti).__name__)
        return
    for i, nm in enumerate(names):
        if not proj_eq(ti.array[i], XF.mat_np(X.inv(gens[nm]))):
            ctx.fail("tcoll:inverse:value", "inverse", {"dim": dim, "generator": nm}, XF.mat_np(X.inv(gens[nm])), ti.array[i])
            return
    prod, e = ctx.call(lambda: tc * ti)
    ctx.trace(len(names))
    if e is not None or not all(proj_eq(prod.array[i], np.eye(dim + 1)) for i in range(len(names))):
        ctx.fail("tcoll:t*t.inverse", "tc*tc.inverse()", {"dim": dim}, "identities", e if e is not None else prod.array)
        return
    # compositions that mix a single transformation with a collection (both orders), two different collections, and
    # collections with two axes: position by position the exact matrix product
    Ms = [gens[nm] for nm in names]
    k = len(Ms) - len(Ms) % 2
    for sname in ("shear", "proj", "rot345"):
        S = gens[sname]
        s1 = G.Transformation(XF.mat_np(S))
        tc_rev = G.TransformationCollection(np.stack([XF.mat_np(M) for M in Ms[::-1]]))
        tc_grid = G.TransformationCollection(np.stack([XF.mat_np(M) for M in Ms[:k]]).reshape(2, k // 2, dim + 1, dim + 1))
        forms = (
            ("single*collection", lambda: s1 * tc, [X.matmul(S, M) for M in Ms], (len(Ms),)),
            ("collection*single", lambda: tc * s1, [X.matmul(M, S) for M in Ms], (len(Ms),)),
            ("collection*collection", lambda: tc * tc_rev, [X.matmul(M, N) for M, N in zip(Ms, Ms[::-1])], (len(Ms),)),
            ("single*grid", lambda: s1 * tc_grid, [X.matmul(S, M) for M in Ms[:k]], (2, k // 2)),
            ("grid*single", lambda: tc_grid * s1, [X.matmul(M, S) for M in Ms[:k]], (2, k // 2)),
            ("grid*grid", lambda: tc_grid * tc_grid, [X.matmul(M, M) for M in Ms[:k]], (2, k // 2)),
        )
        for label, fn, wants, shp in forms:
            r, e = ctx.call(fn)
            ctx.trace(len(wants))
            ctx.state((dim, "compose", sname, label))
            ok = e is None and type(r) is G.TransformationCollection and r.array.shape == shp + (dim + 1, dim + 1)
            if ok:
                flat = r.array.reshape((-1, dim + 1, dim + 1))
                ok = all(proj_eq(flat[i], XF.mat_np(W)) for i, W in enumerate(wants))
            if not ok:
                ctx.fail(f"tcoll:compose:{label}", label, {"dim": dim, "single": sname}, "position-wise matrix products", e if e is not None else r.array)
                return
    # a collection of transformations applied to single points / hyperplanes / quadrics: broadcast
    for d in XF.pool(dim):
        if d[0] not in ("point", "hyper", "quadric", "line3"):
            continue
        x = XF.build(G, d)
        st = XF.exact_state(G, d, x)
        ctx.state((dim, XF.kind_name(d), d[1]))
        r, e = ctx.call(lambda: tc * x)
        ctx.trace(len(names))
        if e is not None:
            ctx.fail(f"tcoll:apply:{XF.kind_name(d)}:{type(e).__name__}", "tc*x", {"dim": dim, "object": d}, "collection", e)
            return
        for i, nm in enumerate(names):
            want = XF.act(gens[nm], st)
            # compare element i of the result with the exact image
            from types import SimpleNamespace

            elem = SimpleNamespace(array=np.asarray(r.array)[i], is_dual=getattr(r, "is_dual", False))
            bad = XF.agrees(elem, want)
            if bad:
                ctx.fail(f"tcoll:apply:{XF.kind_name(d)}", "tc*x", {"dim": dim, "object": d, "generator": nm}, XF.state_json(want), np.asarray(elem.array))
                return


# ---------------------------------------------------------------------------------------------------
# history: inverse / powers / application after the matrix of the same object was changed


def enum_mutation(tier, seed):
    for dim in (2, 3):
        for g in ("shear", "proj", "det2", "rot345", "detm3"):
            yield (dim, g)


@family("C06", "inverse_after_change", enum_mutation)
def case_mutation(ctx, cfg):
    import geometer as G

    dim, g = cfg
    n = dim + 1
    M = XF.gens(dim)[g]
    x = XF.build(G, XF.pool(dim)[3])  # a hyperplane: transformed with the inverse matrix
    stx = XF.exact_state(G, XF.pool(dim)[3], x)
    ctx.state(cfg)

    # an identity that is edited in place must not change what identity() / t**0 return afterwards
    if g == "shear":
        t_id = G.identity(dim)
        t_id[0, n - 1] = 3.0
        for label, mk in (("identity()", lambda: G.identity(dim)), ("t**0", lambda: G.Transformation(XF.mat_np(M)) ** 0), ("identity() again", lambda: G.identity(dim))):
            r, e = ctx.call(mk)
            ctx.trace()
            if e is not None or not np.array_equal(np.asarray(r.array), np.eye(n)):
                ctx.fail("identity:after-an-identity-was-edited-in-place", label, {"dim": dim}, np.eye(n), e if e is not None else r.array)
                t_id[0, n - 1] = 0.0  # undo the edit: if storage is shared, later configurations of this worker must not see it
                return
        t_id[0, n - 1] = 0.0

    def consistent(t, Mexact, tag):
        inv, e = ctx.call(t.inverse)
        ctx.trace()
        if e is not None or not proj_eq(inv.array, XF.mat_np(X.inv(Mexact))):
            ctx.fail(f"inverse:{tag}", "inverse", {"dim": dim, "generator": g, "history": tag}, XF.mat_np(X.inv(Mexact)), e if e is not None else inv.array)
            return False
        y, e = ctx.call(lambda: t * x)
        bad = "exception" if e is not None else XF.agrees(y, XF.act(Mexact, stx))
        if bad:
            ctx.fail(f"apply:{tag}", "t*hyperplane", {"dim": dim, "generator": g, "history": tag}, XF.state_json(XF.act(Mexact, stx)), e if e is not None else y.array)
            return False
        p, e = ctx.call(lambda: t**-2)
        if e is not None or not proj_eq(p.array, XF.mat_np(X.inv(X.matmul(Mexact, Mexact)))):
            ctx.fail(f"pow:{tag}", "t**-2", {"dim": dim, "generator": g, "history": tag}, XF.mat_np(X.inv(X.matmul(Mexact, Mexact))), e if e is not None else p.array)
            return False
        return True

    t = G.Transformation(XF.mat_np(M))
    if not consistent(t, M, "fresh"):
        return
    # (1) item assignment on the same object
    M2 = [list(r) for r in M]
    M2[0][n - 1] = M2[0][n - 1] + 3
    t[0, n - 1] = float(M2[0][n - 1])
    if not consistent(t, M2, "after-item-assignment"):
        return
    # (2) a copy that received another matrix
    t2 = G.Transformation(XF.mat_np(M))
    _ = ctx.call(t2.inverse)
    t3 = t2.copy()
    t3.array = XF.mat_np(M2)
    if not consistent(t3, M2, "copy-with-new-array-after-inverse"):
        return
    if not consistent(t2, M, "original-after-copy-changed"):
        return
    # (3) collections: expand_dims after inverse
    names = ["shear", "proj", "det2"]
    tc = G.TransformationCollection(np.stack([XF.mat_np(XF.gens(dim)[nm]) for nm in names]))
    _ = ctx.call(tc.inverse)
    te, e = ctx.call(tc.expand_dims, 0)
    ti, e2 = ctx.call(te.inverse) if e is None else (None, e)
    ctx.trace()
    ok = e2 is None and ti.array.shape == (1, 3, n, n) and all(proj_eq(ti.array[0, i], XF.mat_np(X.inv(XF.gens(dim)[nm]))) for i, nm in enumerate(names))
    if not ok:
        ctx.fail("inverse:collection-after-expand_dims", "expand_dims(0).inverse()", {"dim": dim}, "elementwise inverses of shape (1, 3, n, n)", e2 if e2 is not None else list(ti.array.shape))
        return
    pts = G.PointCollection(np.arange(3 * n).reshape(3, n) % 5 + 1.0)
    img, e = ctx.call(lambda: te * G.PlaneCollection(pts.array) if dim == 3 else te * G.LineCollection(pts.array))
    if e is None:
        for i, nm in enumerate(names):
            want = np.array([float(v) for v in X.matvec(X.transpose(X.inv(XF.gens(dim)[nm])), [F_(v) for v in pts.array[i]])])
            if not proj_eq(np.asarray(img.array)[0, i], want):
                ctx.fail("apply:collection-after-expand_dims", "tc.expand_dims(0) * hyperplanes", {"dim": dim, "generator": nm}, want, np.asarray(img.array)[0, i])
                return


def F_(v):
    from fractions import Fraction

    return Fraction(float(v))
