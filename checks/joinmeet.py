"""Shared families for C01 (join/meet = exact span/intersection) and C02 (degenerate inputs raise).

The same enumerations serve both properties: C01 judges values on configurations the exact oracle
classifies as general position; C02 judges raise-iff-degenerate on *all* configurations.
"""
from __future__ import annotations

import itertools
from fractions import Fraction as F
from math import lcm

import numpy as np

from mc import exact as X
from mc import oracle as O
from mc.compare import proj_eq, proj_eq_batch
from mc.core import family, lattice, seed_symmetry

# kind -> (operation, argument spec, result kind, n = dim + 1)
#   P point, H hyperplane (2D line / plane), L 3D line through two points, M 3D line as meet of two planes
KINDS = {
    "join_pp_2": ("join", "PP", "hyper", 3),
    "meet_ll_2": ("meet", "HH", "point", 3),
    "join_pp_3": ("join", "PP", "line3", 4),
    "meet_ee_3": ("meet", "HH", "line3", 4),
    "join_ppp_3": ("join", "PPP", "hyper", 4),
    "meet_eee_3": ("meet", "HHH", "point", 4),
    "join_lp_3": ("join", "LP", "hyper", 4),
    "join_pl_3": ("join", "PL", "hyper", 4),
    "join_mp_3": ("join", "MP", "hyper", 4),
    "meet_el_3": ("meet", "HL", "point", 4),
    "meet_le_3": ("meet", "LH", "point", 4),
    "meet_em_3": ("meet", "HM", "point", 4),
    "join_ll_3": ("join", "LL", "hyper", 4),
    "meet_ll_3": ("meet", "LL", "point", 4),
    "join_lm_3": ("join", "LM", "hyper", 4),
    "meet_ml_3": ("meet", "ML", "point", 4),
}
NVEC = {"P": 1, "H": 1, "L": 2, "M": 2}


def nvec(spec):
    return sum(NVEC[c] for c in spec)


def cnum(x):
    if isinstance(x, dict):
        return complex(x["re"], x["im"])
    if isinstance(x, (list, tuple)):
        return complex(x[0], x[1])
    return x


def np_vec(v, dtype):
    return np.array([cnum(x) for x in v], dtype=dtype)


def split_args(spec, vecs):
    out, k = [], 0
    for c in spec:
        out.append((c, vecs[k : k + NVEC[c]]))
        k += NVEC[c]
    return out


def oracle_sub(c, vs, n):
    if c == "P":
        return O.Sub([vs[0]], n)
    if c == "H":
        return O.Sub.from_planes([vs[0]], n)
    if c == "L":
        return O.Sub([vs[0], vs[1]], n)
    return O.Sub.from_planes([vs[0], vs[1]], n)


_MEMO = {}


def classify(kind, vecs):
    """Exact classification: ('badarg',) | ('dep',) | ('skew',) | ('ok', expected integer coordinates (nested list))."""
    key = (kind, vecs)
    r = _MEMO.get(key)
    if r is not None:
        return r
    op, spec, rk, n = KINDS[kind]
    args = split_args(spec, vecs)
    subs = [oracle_sub(c, vs, n) for c, vs in args]
    for (c, vs), s in zip(args, subs):
        if c in "LM" and s.dim != 2:
            r = ("badarg",)
            break
    else:
        lines = [c in "LM" for c, _ in args]
        if op == "join":
            S = O.join(*subs)
            if all(lines):
                r = ("skew",) if S.dim == 4 else ("dep",) if S.dim == 2 else None
            elif any(lines):
                r = ("dep",) if S.dim < 3 else None
            else:
                r = ("dep",) if S.dim < len(subs) else None
        else:
            S = O.meet(*subs)
            rc = n - S.dim
            if all(lines):
                r = ("skew",) if rc == 4 else ("dep",) if rc == 2 else None
            elif any(lines):
                r = ("dep",) if rc < 3 else None
            else:
                r = ("dep",) if rc < len(subs) else None
        if r is None:
            e = O.expected_array(S, rk)
            r = ("ok", to_int_coords(e))
    if len(_MEMO) > 400000:
        _MEMO.clear()
    _MEMO[key] = r
    return r


def to_int_coords(e):
    """Scale exact coordinates (vector or matrix of Fractions / Gaussian rationals) to integers / [re, im] pairs."""
    flat = X.flatten(e) if isinstance(e[0], list) else list(e)
    if all(type(x) is int for x in flat):
        return [list(r) for r in e] if isinstance(e[0], list) else list(e)
    dens = []
    for x in flat:
        if isinstance(x, X.QI):
            dens += [x.re.denominator, x.im.denominator]
        else:
            dens.append(F(x).denominator)
    m = lcm(*dens)

    def conv(x):
        if isinstance(x, X.QI):
            return {"re": int(x.re * m), "im": int(x.im * m)}
        return int(F(x) * m)

    if isinstance(e[0], list):
        return [[conv(x) for x in r] for r in e]
    return [conv(x) for x in e]


def exp_np(e):
    try:
        return np.array(e, dtype=float).astype(complex)  # integer coordinates
    except (TypeError, ValueError):
        pass
    return np.array([[cnum(x) for x in r] for r in e] if isinstance(e[0], list) else [cnum(x) for x in e], dtype=complex)


def _is_matrix(e):
    # a 4x4 matrix of (ints | [re,im]) vs a vector of (ints | [re,im])
    return isinstance(e[0], list) and len(e) == 4 and len(e[0]) == 4


def build(G, c, vs, dtype, n):
    """Construct the geometer object for one argument (may raise for degenerate L/M, which classify() filters)."""
    if c == "P":
        return G.Point(np_vec(vs[0], dtype))
    if c == "H":
        return (G.Line if n == 3 else G.Plane)(np_vec(vs[0], dtype))
    if c == "L":
        return G.Line(G.Point(np_vec(vs[0], dtype)), G.Point(np_vec(vs[1], dtype)))
    return G.Plane(np_vec(vs[0], dtype)).meet(G.Plane(np_vec(vs[1], dtype)))


def _np_rows(col, dtype):
    try:
        return np.array(col, dtype=dtype)  # integer coordinates
    except (TypeError, ValueError):
        return np.array([[cnum(x) for x in v] for v in col], dtype=dtype)


def build_coll(G, c, cols, dtype, n, shape):
    """cols: list (per constituent vector) of arrays (m, n). Returns a collection of the given leading shape."""
    arrs = [_np_rows(col, dtype).reshape(shape + (n,)) for col in cols]
    if c == "P":
        return G.PointCollection(arrs[0])
    if c == "H":
        return (G.LineCollection if n == 3 else G.PlaneCollection)(arrs[0])
    if c == "L":
        return G.LineCollection(G.PointCollection(arrs[0]), G.PointCollection(arrs[1]))
    return G.PlaneCollection(arrs[0]).meet(G.PlaneCollection(arrs[1]))


def result_ok_type(G, res, rk, n, coll):
    if rk == "point":
        cls = G.PointCollection if coll else G.Point
        ts = (1, 0)
    elif rk == "hyper":
        cls = (G.LineCollection if n == 3 else G.PlaneCollection) if coll else (G.Line if n == 3 else G.Plane)
        ts = (0, 1)
    else:
        cls = G.LineCollection if coll else G.Line
        ts = (0, 2)
    return type(res) is cls and res.tensor_shape == ts


def _geom():
    import geometer as G

    return G


# ---------------------------------------------------------------------------------------------------
# alphabets


def A2(tier):
    return lattice(3, 2 if tier == "quick" else 3)


def A3():
    return lattice(4, 1)


def proj_reps(vs):
    out = []
    for v in vs:
        nz = next(x for x in v if x)
        if nz > 0:
            out.append(v)
    return out


def T3():
    """20 points of 3-space (homogeneous), all octants, finite and at infinity: scalar triple scope."""
    return [
        (1, 0, 0, 0), (0, 1, 0, 0), (0, 0, 1, 0), (0, 0, 0, 1), (1, 1, 0, 0), (1, -1, 0, 1), (0, 1, -1, 1), (1, 0, 1, -1),
        (-1, 1, 1, 0), (1, 1, 1, 1), (1, -1, 1, -1), (0, 1, 1, -1), (2, 1, 0, 1), (-1, 2, 1, 1), (1, 1, -2, 1), (0, 0, 1, 1),
        (-1, -1, -1, 1), (2, -1, 1, 2), (1, 0, 0, 1), (0, 1, 0, -1),
    ]


def C3():
    return T3()[:12]


def G2s():
    g = [0, 1, [0, 1], -1]
    return [v for v in itertools.product(g, repeat=3) if any(x != 0 for x in v)]


def G3s():
    g = [0, 1, [0, 1]]
    return [v for v in itertools.product(g, repeat=4) if any(x != 0 for x in v)]


def apply_sym(v, sym):
    """Signed coordinate permutation (seed-selected additional complete slice, R6)."""
    perm, signs, _ = sym
    return tuple(signs[i] * v[perm[i]] for i in range(len(v)))


# ---------------------------------------------------------------------------------------------------
# scalar families


def enum_scalar(tier, seed):
    # 2D: all ordered pairs of the lattice, three dtypes
    a2 = A2(tier)
    for kind in ("join_pp_2", "meet_ll_2"):
        for p in a2:
            for q in a2:
                yield (kind, (p, q), "int64")
    for kind in ("join_pp_2", "meet_ll_2"):
        for p in lattice(3, 1):
            for q in lattice(3, 1):
                yield (kind, (p, q), "float64")
                yield (kind, (p, q), "complex128")
    # genuinely complex coordinates
    for kind in ("join_pp_2", "meet_ll_2"):
        for p in G2s():
            for q in G2s():
                yield (kind, (p, q), "complex128")
    # 3D pairs
    a3 = A3()
    for kind in ("join_pp_3", "meet_ee_3"):
        for p in a3:
            for q in a3:
                yield (kind, (p, q), "int64")
        for p in proj_reps(a3):
            for q in proj_reps(a3):
                yield (kind, (p, q), "float64")
        g3 = G3s() if tier == "thorough" else G3s()[:40]
        for p in g3:
            for q in g3:
                yield (kind, (p, q), "complex128")
    # 3D triples over the 20-point alphabet
    t3 = T3()
    for kind in ("join_ppp_3", "meet_eee_3", "join_lp_3", "join_pl_3", "join_mp_3", "meet_el_3", "meet_le_3", "meet_em_3"):
        for vs in itertools.product(t3, repeat=3):
            yield (kind, vs, "int64")
    # 3D 4-tuples over the 12-point alphabet (skew, coplanar and equal line pairs)
    c3 = C3()
    for kind in ("join_ll_3", "meet_ll_3", "join_lm_3", "meet_ml_3"):
        for vs in itertools.product(c3, repeat=4):
            yield (kind, vs, "int64")
    # zero vectors
    for kind, n in (("join_pp_2", 3), ("meet_ll_2", 3), ("join_pp_3", 4), ("meet_ee_3", 4)):
        z = (0,) * n
        for p in (lattice(n, 1)[:6]):
            yield (kind, (z, p), "int64")
            yield (kind, (p, z), "float64")
        yield (kind, (z, z), "int64")
    for kind in ("join_ppp_3", "meet_eee_3"):
        z = (0, 0, 0, 0)
        yield (kind, (z, (1, 0, 0, 0), (0, 1, 0, 0)), "int64")
        yield (kind, ((1, 0, 0, 0), z, (0, 1, 0, 1)), "int64")
        yield (kind, ((1, 0, 0, 0), (0, 1, 0, 1), z), "float64")
    # seed-selected additional complete slice: the 2D pair scope under a signed coordinate permutation with offset
    if seed:
        sym = seed_symmetry(seed, 3)
        off = sym[2]
        for kind in ("join_pp_2", "meet_ll_2"):
            for p in lattice(3, 1):
                for q in lattice(3, 1):
                    pp = tuple(a + b for a, b in zip(apply_sym(p, sym), off))
                    qq = tuple(a + 2 * b for a, b in zip(apply_sym(q, sym), off))
                    yield (kind, (pp, qq), "int64")


def _exc_name(e):
    return type(e).__name__


@family(["C01", "C02"], "scalar", enum_scalar)
def case_scalar(ctx, cfg):
    G = _geom()
    from geometer.exceptions import LinearDependenceError, NotCoplanar

    kind, vecs, dtype = cfg
    vecs = tuple(tuple(tuple(x) if isinstance(x, (list, tuple)) else x for x in v) for v in vecs)
    op, spec, rk, n = KINDS[kind]
    cl = classify(kind, vecs)
    if cl[0] == "badarg":
        ctx.skipped += 1
        ctx.tally(f"{kind}:skip-degenerate-line-argument")
        return
    ctx.tally(f"{kind}:{cl[0]}")
    ctx.state((kind, vecs, dtype), nontrivial=(cl[0] == "ok") == (ctx.pid == "C01") or ctx.pid == "C02")
    args = [build(G, c, vs, dtype, n) for c, vs in split_args(spec, vecs)]
    f = G.join if op == "join" else G.meet
    inputs = {"kind": kind, "vectors": vecs, "dtype": dtype}
    res, e = ctx.call(f, *args)
    ctx.trace()
    ctx.outcome(_exc_name(e) if e is not None else type(res).__name__)
    if cl[0] == "dep":
        if ctx.pid == "C02" and not isinstance(e, LinearDependenceError):
            ctx.fail(f"{kind}:dependent:{'no-raise' if e is None else _exc_name(e)}", op, inputs, "LinearDependenceError", e if e is not None else res)
        return
    if cl[0] == "skew":
        if ctx.pid == "C02" and not isinstance(e, NotCoplanar):
            ctx.fail(f"{kind}:skew:{'no-raise' if e is None else _exc_name(e)}", op, inputs, "NotCoplanar", e if e is not None else res)
        return
    # general position
    if e is not None:
        ctx.fail(f"{kind}:general-position-raises:{_exc_name(e)}", op, inputs, "a result", e)
        return
    if ctx.pid != "C01":
        return
    want = exp_np(cl[1])
    if not result_ok_type(G, res, rk, n, False):
        ctx.fail(f"{kind}:result-type", op, inputs, rk, f"{type(res).__name__} {res.tensor_shape}")
        return
    if not proj_eq(res.array, want, 1e-12):
        ctx.fail(f"{kind}:value", op, inputs, cl[1], res.array)
        return
    # argument order
    if len(args) == 2 or all(c in "PH" for c in spec):
        for perm in itertools.permutations(range(len(args))):
            if perm == tuple(range(len(args))):
                continue
            r2, e2 = ctx.call(f, *[args[i] for i in perm])
            ctx.trace()
            if e2 is not None or not proj_eq(r2.array, want, 1e-12):
                ctx.fail(f"{kind}:argument-order", op, {**inputs, "perm": perm}, cl[1], e2 if e2 is not None else r2.array)
                return
    # un-normalised result denotes the same object
    r3, e3 = ctx.call(f, *args, _normalize_result=False)
    ctx.trace()
    if e3 is not None or not proj_eq(r3.array, want, 1e-12):
        ctx.fail(f"{kind}:normalize_result", op, inputs, cl[1], e3 if e3 is not None else r3.array)
        return
    # method / constructor forms
    forms = []
    if op == "join":
        forms.append(("method", lambda: args[0].join(*args[1:])))
        if spec == "PP":
            forms.append(("Line(p,q)", lambda: G.Line(args[0], args[1])))
        if spec in ("PPP", "LP", "PL", "LL", "MP", "LM"):
            forms.append(("Plane(...)", lambda: G.Plane(*args)))
    elif len(args) == 2:
        forms.append(("method", lambda: args[0].meet(args[1])))
    for name, fn in forms:
        r4, e4 = ctx.call(fn)
        ctx.trace()
        if e4 is not None or not proj_eq(r4.array, want, 1e-12) or not result_ok_type(G, r4, rk, n, False):
            ctx.fail(f"{kind}:form:{name}", name, inputs, cl[1], e4 if e4 is not None else r4.array)
            return
    # 3D lines: covariant / contravariant forms denote the same line
    if rk == "line3":
        cov, e5 = ctx.call(lambda: res.covariant_tensor)
        back, e6 = ctx.call(lambda: cov.contravariant_tensor) if e5 is None else (None, e5)
        ctx.trace()
        if e6 is not None or cov.tensor_shape != (2, 0) or not proj_eq(back.array, want, 1e-12):
            ctx.fail(f"{kind}:co-contravariant-roundtrip", "covariant_tensor.contravariant_tensor", inputs, cl[1], e6 if e6 is not None else back.array)
            return
        # the covariant form is the wedge of two points of the line (exact): p^q
        S = O.Sub.from_planes(O.Sub.from_planes([X.vec(r) for r in _two_planes(cl[1])], 4).planes(), 4) if False else None
        pts = _points_of_line(kind, vecs)
        if pts is not None:
            wq = np.array([[cnum(x) for x in r] for r in to_int_coords(O.wedge(X.vec(pts[0]), X.vec(pts[1])))], dtype=complex)
            if not proj_eq(cov.array, wq, 1e-12):
                ctx.fail(f"{kind}:covariant-value", "covariant_tensor", inputs, wq, cov.array)


def _two_planes(e):
    return e


def _points_of_line(kind, vecs):
    op, spec, rk, n = KINDS[kind]
    if kind == "join_pp_3":
        return vecs
    if kind == "meet_ee_3":
        S = O.Sub.from_planes([vecs[0], vecs[1]], 4)
        return S.B if S.dim == 2 else None
    return None


# ---------------------------------------------------------------------------------------------------
# aliased arguments: the same Python object passed twice is a dependent input


def _partitions(k):
    """All identity patterns of k argument positions (restricted growth strings), e.g. (0, 1, 0): first and third
    argument are the same Python object."""
    out = [(0,)]
    for _ in range(k - 1):
        out = [p + (x,) for p in out for x in range(max(p) + 2)]
    return [p for p in out if len(set(p)) < k]  # at least one repeated object


def enum_alias(tier, seed):
    for kind, (op, spec, rk, n) in KINDS.items():
        k = len(spec)
        alpha = lattice(3, 1)[:6] if n == 3 else T3()[:7]
        for pat in _partitions(k):
            nobj = max(pat) + 1
            per = [NVEC[spec[pat.index(o)]] for o in range(nobj)]
            if any(NVEC[spec[i]] != per[o] or spec[i] != spec[pat.index(o)] for i, o in enumerate(pat)):
                continue  # positions sharing an object must be of the same kind
            for vs in itertools.product(alpha, repeat=sum(per)):
                for coll in (False, True):
                    yield (kind, pat, vs, coll)


@family("C02", "aliased", enum_alias)
def case_alias(ctx, cfg):
    G = _geom()
    from geometer.exceptions import LinearDependenceError, NotCoplanar

    kind, pat, vs, coll = cfg
    pat = tuple(pat)
    vs = tuple(tuple(v) for v in vs)
    op, spec, rk, n = KINDS[kind]
    nobj = max(pat) + 1
    objvecs, k = [], 0
    for o in range(nobj):
        c = spec[pat.index(o)]
        objvecs.append(vs[k : k + NVEC[c]])
        k += NVEC[c]
    vecs = tuple(v for i in pat for v in objvecs[i])
    cl = classify(kind, vecs)
    if cl[0] == "badarg":
        ctx.skipped += 1
        return
    ctx.state((kind, pat, vs, coll))
    ctx.tally(f"{kind}:pattern{''.join(map(str, pat))}:{cl[0]}")
    objs = []
    for o in range(nobj):
        c = spec[pat.index(o)]
        if coll:
            objs.append(build_coll(G, c, [[v, v] for v in objvecs[o]], "int64", n, (2,)))
        else:
            objs.append(build(G, c, list(objvecs[o]), "int64", n))
    args = [objs[i] for i in pat]
    f = G.join if op == "join" else G.meet
    inputs = {"kind": kind, "identity_pattern": pat, "vectors": vecs, "collection": coll}
    for form in ("function", "method"):
        if form == "method":
            if op == "meet" and len(args) != 2:
                continue
            call = (lambda: args[0].join(*args[1:])) if op == "join" else (lambda: args[0].meet(args[1]))
        else:
            call = lambda: f(*args)  # noqa: E731
        res, e = ctx.call(call)
        ctx.trace()
        want = {"dep": LinearDependenceError, "skew": NotCoplanar}.get(cl[0])
        if want is None:
            if e is not None:
                ctx.fail(f"{kind}:aliased:general-position-raises:{_exc_name(e)}", op, {**inputs, "form": form}, "a result", e)
                return
        elif not isinstance(e, want):
            ctx.fail(f"{kind}:aliased:{'no-raise' if e is None else _exc_name(e)}", op, {**inputs, "form": form}, want.__name__, e if e is not None else res)
            return
        elif coll and want is LinearDependenceError and not np.array_equal(np.asarray(e.dependent_values), np.array([True, True])):
            ctx.fail(f"{kind}:aliased:dependent_values", op, {**inputs, "form": form}, [1, 1], np.asarray(e.dependent_values).astype(int))
            return


# ---------------------------------------------------------------------------------------------------
# collection families


def scope_rest(kind, tier):
    """(first-argument alphabet, alphabet of the remaining constituent vectors) for the collection path."""
    op, spec, rk, n = KINDS[kind]
    if n == 3:
        a = A2(tier)
        return a, a
    if nvec(spec) == 2:
        a = A3()
        return a, a
    if nvec(spec) == 3:
        a = proj_reps(A3())
        return a, a
    a = proj_reps(A3()) if tier == "thorough" else T3()
    return a, a


LAYOUTS = ("flat", "grid", "single_first", "single_last", "len1", "first_len1", "first_row")


def enum_coll(tier, seed):
    for kind in KINDS:
        op, spec, rk, n = KINDS[kind]
        first, rest = scope_rest(kind, tier)
        k = nvec(spec)
        # chunk = all combinations of the remaining vectors for one fixed leading block
        lead = 1 if k <= 3 else 2
        for head in itertools.product(first, repeat=lead):
            yield (kind, head)


def _factor(m):
    for a in range(2, int(m**0.5) + 1):
        if m % a == 0:
            return (a, m // a)
    return (1, m)


@family(["C01", "C02"], "collections", enum_coll)
def case_coll(ctx, cfg):
    G = _geom()
    from geometer.exceptions import LinearDependenceError, NotCoplanar

    kind, head = cfg[0], cfg[-1]
    head = tuple(tuple(v) for v in head)
    op, spec, rk, n = KINDS[kind]
    first, rest = scope_rest(kind, ctx.tier)
    k = nvec(spec)
    tails = itertools.product(rest, repeat=k - len(head))
    rows, cls = [], []
    for t in tails:
        vecs = head + t
        c = classify(kind, vecs)
        if c[0] == "badarg":
            ctx.skipped += 1
            continue
        rows.append(vecs)
        cls.append(c)
    if not rows:
        return
    f = G.join if op == "join" else G.meet
    dtype = "int64" if (hash(head) % 2 == 0) else "float64"
    argspec = split_args(spec, list(range(k)))  # (char, positions of constituent vectors)

    def feed(sel, what, lay):
        """Build arguments for the selected rows in the given layout and call the operation."""
        m = len(sel)
        shape = (m,)
        if lay == "grid":
            shape = _factor(m)
        elif lay == "len1":
            shape = (m, 1)
        args = []
        if lay in ("first_len1", "first_row"):
            # numpy-style broadcasting between collections of different shapes: the first argument (fixed by `head`) is a
            # collection of shape (1,) against (m,), resp. of shape (b,) against (a, b)
            first_fixed = all(p < len(head) for p in argspec[0][1])
            if not first_fixed:
                return None, None, shape, True
            shape = (m,) if lay == "first_len1" else _factor(m)
            fshape = (1,) if lay == "first_len1" else (shape[-1],)
            c0, pos0 = argspec[0]
            args.append(build_coll(G, c0, [[rows[sel[0]][p]] * fshape[0] for p in pos0], dtype, n, fshape))
            for c, pos in argspec[1:]:
                args.append(build_coll(G, c, [[rows[i][p] for i in sel] for p in pos], dtype, n, shape))
            res, e = ctx.call(f, *args)
            ctx.trace(m)
            return res, e, shape, False
        for ai, (c, pos) in enumerate(argspec):
            single = (lay == "single_first" and ai == 0 and all(p < len(head) for p in pos)) or (
                lay == "single_last" and ai == len(argspec) - 1 and len({tuple(rows[i][p] for p in pos) for i in sel}) == 1
            )
            if single:
                args.append(build(G, c, [rows[sel[0]][p] for p in pos], dtype, n))
            else:
                args.append(build_coll(G, c, [[rows[i][p] for i in sel] for p in pos], dtype, n, shape))
        if all(a.free_indices == 0 for a in args):
            return None, None, shape, True
        res, e = ctx.call(f, *args)
        ctx.trace(m)
        return res, e, shape, False

    ok = [i for i, c in enumerate(cls) if c[0] == "ok"]
    dep = [i for i, c in enumerate(cls) if c[0] == "dep"]
    skew = [i for i, c in enumerate(cls) if c[0] == "skew"]
    lays = cfg[1:-1] or LAYOUTS
    for lay in lays:
        if _coll_layout(ctx, G, f, kind, lay, head, rows, cls, ok, dep, skew, feed, dtype, argspec):
            return


def _coll_layout(ctx, G, f, kind, lay, head, rows, cls, ok, dep, skew, feed0, dtype, argspec):
    from geometer.exceptions import LinearDependenceError, NotCoplanar

    op, spec, rk, n = KINDS[kind]
    feed = lambda sel, what: feed0(sel, what, lay)  # noqa: E731
    if True:
        ctx.tally(f"{kind}:{lay}:ok", len(ok))
        ctx.tally(f"{kind}:{lay}:dep", len(dep))
        ctx.tally(f"{kind}:{lay}:skew", len(skew))
        base = hash((kind, lay, head))
        ctx.states.update(hash((base, i)) for i in range(len(rows)))
        ctx.nontrivial.update(hash((base, i)) for i in (ok if ctx.pid == "C01" else range(len(rows))))
        inputs = {"kind": kind, "layout": lay, "head": head, "dtype": dtype}
        ctx.cfg = (kind, lay, head)  # replay only this layout

    if lay == "single_last":
        # group rows by the last argument so that it can be passed as a single object
        groups = {}
        lastpos = argspec[-1][1]
        for i in range(len(rows)):
            groups.setdefault(tuple(rows[i][p] for p in lastpos), []).append(i)
        group_list = list(groups.values())
    else:
        group_list = [list(range(len(rows)))]

    for grp in group_list:
        gok = [i for i in grp if cls[i][0] == "ok"]
        gdep = [i for i in grp if cls[i][0] == "dep"]
        gskew = [i for i in grp if cls[i][0] == "skew"]
        # (1) all-independent collection: never raises; values element by element
        if gok:
            res, e, shape, trivial = feed(gok, "ok")
            if not trivial:
                if e is not None:
                    ctx.fail(f"{kind}:collection:general-position-raises:{_exc_name(e)}", op, {**inputs, "rows": [rows[i] for i in gok[:3]]}, "a result", e)
                    return True
                if ctx.pid == "C01":
                    want = np.array([exp_np(cls[i][1]) for i in gok]).reshape(shape + exp_np(cls[gok[0]][1]).shape)
                    if not result_ok_type(G, res, rk, n, True) or res.array.shape != want.shape:
                        ctx.fail(f"{kind}:collection:result-type", op, inputs, f"{rk} collection of shape {list(want.shape)}", f"{type(res).__name__} {res.tensor_shape} {list(res.array.shape)}")
                        return True
                    good = proj_eq_batch(res.array, want, 1e-12, tensor_axes=want.ndim - len(shape))
                    if not np.all(good):
                        j = int(np.argmin(good.ravel()))
                        ctx.fail(f"{kind}:collection:value", op, {**inputs, "vectors": rows[gok[j]], "position": j}, cls[gok[j]][1], res.array.reshape((-1,) + want.shape[len(shape):])[j])
                        return True
        if ctx.pid != "C02":
            continue
        # (2) independent + dependent members: LinearDependenceError whose mask marks exactly the dependent positions
        if gdep:
            sel = sorted(gok + gdep)
            res, e, shape, trivial = feed(sel, "dep")
            if not trivial:
                mask = np.array([cls[i][0] == "dep" for i in sel]).reshape(shape)
                if not isinstance(e, LinearDependenceError):
                    ctx.fail(f"{kind}:collection:dependent:{'no-raise' if e is None else _exc_name(e)}", op, {**inputs, "rows": [rows[i] for i in gdep[:3]]}, "LinearDependenceError", e if e is not None else "returned a collection")
                    return True
                got = np.asarray(e.dependent_values)
                if got.shape != mask.shape or not np.array_equal(got, mask):
                    ctx.fail(f"{kind}:collection:dependent_values", op, {**inputs, "n_rows": len(sel)}, mask.astype(int), got.astype(int) if got.dtype == bool else got)
                    return True
        # (3) any skew pair in a collection of line pairs: NotCoplanar
        if gskew:
            sel = sorted(gok + gskew)
            res, e, shape, trivial = feed(sel, "skew")
            if not trivial and not isinstance(e, NotCoplanar):
                ctx.fail(f"{kind}:collection:skew:{'no-raise' if e is None else _exc_name(e)}", op, {**inputs, "rows": [rows[i] for i in gskew[:3]]}, "NotCoplanar", e if e is not None else "returned a collection")
                return True
    return False


# ---------------------------------------------------------------------------------------------------
# every dependent/independent mask by position (m <= 4)


def enum_masks(tier, seed):
    for kind in KINDS:
        for m in (1, 2, 3, 4):
            for mask in itertools.product((0, 1), repeat=m):
                yield (kind, mask)


_POOLS = {}


def _pool(kind):
    if kind not in _POOLS:
        op, spec, rk, n = KINDS[kind]
        alpha = lattice(3, 1) if n == 3 else T3()[:10]
        okl, depl = [], []
        for vecs in itertools.product(alpha, repeat=nvec(spec)):
            c = classify(kind, vecs)
            if c[0] == "ok" and len(okl) < 8:
                okl.append((vecs, c))
            elif c[0] == "dep" and len(depl) < 8:
                depl.append((vecs, c))
            if len(okl) >= 8 and len(depl) >= 8:
                break
        _POOLS[kind] = (okl, depl)
    return _POOLS[kind]


@family("C02", "mask_positions", enum_masks)
def case_masks(ctx, cfg):
    G = _geom()
    from geometer.exceptions import LinearDependenceError

    kind, mask = cfg
    op, spec, rk, n = KINDS[kind]
    okl, depl = _pool(kind)
    rows = [(depl if b else okl)[(3 * i + 1) % len(depl if b else okl)][0] for i, b in enumerate(mask)]
    argspec = split_args(spec, list(range(nvec(spec))))
    args = [build_coll(G, c, [[r[p] for r in rows] for p in pos], "int64", n, (len(rows),)) for c, pos in argspec]
    f = G.join if op == "join" else G.meet
    res, e = ctx.call(f, *args)
    ctx.trace()
    ctx.state((kind, tuple(mask)))
    ctx.tally(f"{kind}:mask-size-{len(mask)}")
    inputs = {"kind": kind, "mask": mask, "rows": rows}
    if any(mask):
        if not isinstance(e, LinearDependenceError):
            ctx.fail(f"{kind}:mask:{'no-raise' if e is None else _exc_name(e)}", op, inputs, "LinearDependenceError", e if e is not None else "returned")
        elif not np.array_equal(np.asarray(e.dependent_values), np.array(mask, dtype=bool)):
            ctx.fail(f"{kind}:mask:dependent_values", op, inputs, list(mask), np.asarray(e.dependent_values).astype(int))
    elif e is not None:
        ctx.fail(f"{kind}:mask:general-position-raises:{_exc_name(e)}", op, inputs, "a result", e)


# ---------------------------------------------------------------------------------------------------
# round trips (C01)


def enum_round(tier, seed):
    for p in lattice(3, 1):
        yield ("2d", p)
    for p in proj_reps(A3()) if tier == "thorough" else T3():
        yield ("3d", p)


@family("C01", "roundtrip", enum_round)
def case_round(ctx, cfg):
    G = _geom()
    dim, p = cfg
    p = tuple(p)
    if dim == "2d":
        alpha = lattice(3, 1)
        n = 3
    else:
        alpha = proj_reps(A3()) if ctx.tier == "thorough" else T3()
        n = 4
    rows = []
    for q, r in itertools.product(alpha, repeat=2):
        if X.rank(X.mat([p, q, r])) == 3:
            rows.append((q, r))
    ctx.tally(f"{dim}:triples-rank3", len(rows))
    if not rows:
        return
    base = hash((dim, p))
    ctx.states.update(hash((base, i)) for i in range(len(rows)))
    ctx.nontrivial.update(hash((base, i)) for i in range(len(rows)))
    Q = np.array([r[0] for r in rows])
    R = np.array([r[1] for r in rows])
    parr = np.array(p)
    m = len(rows)
    # points: meet(join(p,q), join(p,r)) == p   (p single, q/r collections)
    P1 = G.Point(parr)
    qc, rc = G.PointCollection(Q), G.PointCollection(R)
    res, e = ctx.call(lambda: G.meet(G.join(P1, qc), G.join(P1, rc)))
    ctx.trace(m)
    _judge_round(ctx, res, e, parr, rows, f"{dim}:meet(join(p,q),join(p,r))", p)
    # dual: hyperplanes l, m, n: join(meet(l,m), meet(l,n)) == l
    H = (G.Line if n == 3 else G.Plane)(parr)
    HC = G.LineCollection if n == 3 else G.PlaneCollection
    mc_, nc_ = HC(Q), HC(R)
    res, e = ctx.call(lambda: G.join(G.meet(H, mc_), G.meet(H, nc_)))
    ctx.trace(m)
    _judge_round(ctx, res, e, parr, rows, f"{dim}:join(meet(l,m),meet(l,n))", p)
    if n == 4:
        # lines of 3-space: l = pq; meet(l, pr') ... join(meet(l, m), meet(l, n)) with m = p r, n = q r  gives l
        # rows where additionally q is not p: l = join(p, q), m = join(p, r), n = join(q, r)
        l = G.join(P1, qc)
        res, e = ctx.call(lambda: G.join(G.meet(l, G.join(P1, rc)), G.meet(l, G.join(qc, rc))))
        ctx.trace(m)
        if e is not None:
            ctx.fail(f"{dim}:roundtrip-lines:{_exc_name(e)}", "join(meet(l,m),meet(l,n))", {"p": p}, "l", e)
        else:
            good = proj_eq_batch(res.array, l.array, 1e-12, tensor_axes=2)
            if not np.all(good):
                j = int(np.argmin(good))
                ctx.fail(f"{dim}:roundtrip-lines", "join(meet(l,m),meet(l,n))", {"p": p, "q": rows[j][0], "r": rows[j][1]}, l.array[j], res.array[j])
    # scalar spot path for the first rows (single objects)
    for (q, r) in rows[: 6 if ctx.tier == "quick" else 40]:
        a, b, c = G.Point(parr), G.Point(np.array(q)), G.Point(np.array(r))
        res, e = ctx.call(lambda: G.meet(G.join(a, b), G.join(a, c)))
        ctx.trace()
        if e is not None or not proj_eq(res.array, parr, 1e-12) or type(res) is not G.Point:
            ctx.fail(f"{dim}:roundtrip-scalar", "meet(join(p,q),join(p,r))", {"p": p, "q": q, "r": r}, p, e if e is not None else res.array)
            break


def _judge_round(ctx, res, e, parr, rows, name, p):
    if e is not None:
        ctx.fail(f"{name}:{_exc_name(e)}", name, {"p": p}, p, e)
        return
    good = proj_eq_batch(res.array, parr, 1e-12)
    if res.array.shape != (len(rows), len(parr)) or not np.all(good):
        j = int(np.argmin(good)) if good.shape else 0
        ctx.fail(name, name, {"p": p, "q": rows[j][0], "r": rows[j][1]}, p, res.array[j] if res.array.ndim == 2 else res.array)


# ---------------------------------------------------------------------------------------------------
# many-bit coordinates: the same exact configurations, mapped by an exact integer collineation and scaled by a power of
# two so that every coordinate is a 21-bit dyadic fraction of magnitude ~1. The classification (dependent / skew /
# general position) is unchanged and still exact, but the library's contractions now ROUND: a dependent configuration
# produces rounding noise of size 1e-16 instead of an exact zero tensor, which is the situation the tolerance in the
# dependence test exists for (small integers never exercise it).

M3_BIG = ((700001, -912343, 345679, 123457), (-654321, 999983, 1048573, 333331), (777777, 555557, -1000003, 222223), (314159, 271829, 161803, -141421))
M3_MID = ((701, -912, 345, 123), (-654, 999, 1021, 333), (777, 555, -1003, 222), (314, 271, 161, -141))


def _imatvec(M, v):
    return tuple(sum(M[i][j] * v[j] for j in range(len(v))) for i in range(len(M)))


def _cofactor(M):
    n = len(M)

    def minor(i, j):
        return [[M[r][c] for c in range(n) if c != j] for r in range(n) if r != i]

    def idet(A):
        if len(A) == 1:
            return A[0][0]
        return sum((-1) ** j * A[0][j] * idet([r[:j] + r[j + 1 :] for r in A[1:]]) for j in range(len(A)))

    return tuple(tuple((-1) ** (i + j) * idet(minor(i, j)) for j in range(n)) for i in range(n))


C3_MID = _cofactor(M3_MID)


def many_bit_vectors(kind, vecs):
    """Returns (integer vectors for the exact classification, list of (integer vector, binary exponent) to build floats)."""
    op, spec, rk, n = KINDS[kind]
    kinds = set(spec)
    out, k = [], 0
    for c in spec:
        for _ in range(NVEC[c]):
            v = vecs[k]
            k += 1
            if kinds <= {"P", "L"} or kinds <= {"H", "M"}:
                out.append((_imatvec(M3_BIG, v), 20))
            elif c in "PL":
                out.append((_imatvec(M3_MID, v), 10))
            else:
                out.append((_imatvec(C3_MID, v), 30))
    return tuple(v for v, _ in out), out


MANY_BIT_KINDS = ("join_ppp_3", "meet_eee_3", "join_lp_3", "join_pl_3", "join_mp_3", "meet_el_3", "meet_le_3", "meet_em_3", "join_ll_3", "meet_ll_3", "join_lm_3", "meet_ml_3")


def enum_many_bits(tier, seed):
    t3, c3 = T3(), C3()
    for kind in MANY_BIT_KINDS:
        scope = itertools.product(t3, repeat=3) if nvec(KINDS[kind][1]) == 3 else itertools.product(c3, repeat=4)
        for i, vs in enumerate(scope):
            cl = classify(kind, vs)
            if cl[0] == "badarg":
                continue
            # every dependent and skew configuration; general position: every 5th (quick) / all (thorough)
            if cl[0] == "ok" and tier == "quick" and i % 5 != seed % 5:
                continue
            yield (kind, vs)


@family(["C01", "C02"], "many_bit_coordinates", enum_many_bits)
def case_many_bits(ctx, cfg):
    G = _geom()
    from geometer.exceptions import LinearDependenceError, NotCoplanar

    kind, vecs = cfg
    vecs = tuple(tuple(v) for v in vecs)
    op, spec, rk, n = KINDS[kind]
    ivecs, scaled = many_bit_vectors(kind, vecs)
    cl = classify(kind, ivecs)
    assert cl[0] == classify(kind, vecs)[0], "harness: a collineation changed the classification"
    ctx.tally(f"{kind}:{cl[0]}")
    if (cl[0] == "ok") != (ctx.pid == "C01"):
        ctx.state((kind, vecs), nontrivial=False)
        return  # C01 judges the general-position values, C02 the degenerate ones
    ctx.state((kind, vecs))
    fl = [np.ldexp(np.array(v, dtype=float), -e) for v, e in scaled]
    assert all(np.all(np.ldexp(a, e) == np.array(v, dtype=float)) and all(abs(x) < 2**53 for x in v) for a, (v, e) in zip(fl, scaled)), "harness: coordinates not exact"
    args, k = [], 0
    for c in spec:
        vs = fl[k : k + NVEC[c]]
        k += NVEC[c]
        args.append(build(G, c, vs, float, n))
    f = G.join if op == "join" else G.meet
    inputs = {"kind": kind, "lattice_vectors": vecs, "coordinates": [a.tolist() for a in fl]}
    res, e = ctx.call(f, *args)
    ctx.trace()
    if cl[0] == "dep":
        if not isinstance(e, LinearDependenceError):
            ctx.fail(f"{kind}:many-bits:dependent:{'no-raise' if e is None else _exc_name(e)}", op, inputs, "LinearDependenceError", e if e is not None else res)
            return
        # the same configuration as one position of a collection: error with the right mask
        if set(spec) <= {"P", "H"}:
            good = [np.eye(n)[i] for i in range(len(spec))]
            colls = []
            for a, g, c in zip(args, good, spec):
                cls = G.PointCollection if c == "P" else G.PlaneCollection
                colls.append(cls(np.stack([g, a.array, g])))
            r2, e2 = ctx.call(f, *colls)
            ctx.trace()
            if not isinstance(e2, LinearDependenceError) or not np.array_equal(np.asarray(e2.dependent_values), np.array([False, True, False])):
                ctx.fail(f"{kind}:many-bits:collection-mask", op, inputs, [0, 1, 0], e2 if not isinstance(e2, LinearDependenceError) else np.asarray(e2.dependent_values).astype(int))
        return
    if cl[0] == "skew":
        if not isinstance(e, NotCoplanar):
            ctx.fail(f"{kind}:many-bits:skew:{'no-raise' if e is None else _exc_name(e)}", op, inputs, "NotCoplanar", e if e is not None else res)
        return
    if e is not None:
        ctx.fail(f"{kind}:many-bits:general-position-raises:{_exc_name(e)}", op, inputs, "a result", e)
        return
    want = exp_np(cl[1])
    if not result_ok_type(G, res, rk, n, False) or not proj_eq(res.array, want, 1e-9):
        ctx.fail(f"{kind}:many-bits:value", op, inputs, "exact image", res.array)
