"""Operation catalogue shared by C03 (representative independence), C04 (collections = singles) and C12 (purity).

Every object kind has a small pool of exact specifications (integers) and a builder; every operation is one entry:
    Op(name, kinds of the arguments, function(G, *objects), result kind, accepts collections?, custom configurations)
Result kinds: bool, num, angle (mod pi), obj (projective object), objs (list, compared as a multiset), arr (plain array).
"""
from __future__ import annotations

import itertools
from dataclasses import dataclass, field
from typing import Callable

import numpy as np

# ---------------------------------------------------------------------------------------------------
# pools of exact specifications

POOL = {
    "P2": [(1, 2, 1), (0, 0, 1), (3, -1, 2), (-2, 1, 1), (2, 2, 1), (1, -1, 0), (4, 3, 1)],
    "L2": [(1, 2, 3), (1, -1, 0), (0, 1, -2), (2, 1, 0), (1, 0, -1), (3, -4, 2)],
    "P3": [(1, 2, 3, 1), (0, 0, 0, 1), (2, 0, -1, 1), (0, 1, 1, 1), (3, 1, 0, 2), (1, -1, 2, 0), (1, 1, 1, 1)],
    "E3": [(1, 2, 3, -1), (1, -1, 0, 0), (0, 0, 1, -2), (1, 1, 1, 1), (2, 0, 1, 3)],
    "L3": [((1, 2, 3, 1), (0, 0, 0, 1)), ((2, 0, -1, 1), (0, 1, 1, 1)), ((0, 0, 0, 1), (1, -1, 2, 0)), ((1, 1, 1, 1), (3, 1, 0, 2)), ((0, 1, 1, 1), (1, 0, 0, 0))],
    "CON": [((1, 0, 0), (0, 1, 0), (0, 0, -25)), ((1, 0, 0), (0, 1, 0), (0, 0, -1)), ((0, 1, 0), (1, 0, 0), (0, 0, -2)), ((2, 0, 1), (0, -1, 0), (1, 0, -1)), ((1, 1, 0), (1, -1, 1), (0, 1, 2))],
    "DCON": [((0, 1, 0), (1, 0, 0), (0, 0, 0)), ((2, 3, 1), (3, 4, 2), (1, 2, 0)), ((2, -1, 1), (-1, 0, -1), (1, -1, 0))],  # degenerate: pairs of lines
    "Q3": [((1, 0, 0, 0), (0, 1, 0, 0), (0, 0, 1, 0), (0, 0, 0, -9)), ((1, 0, 0, 0), (0, 1, 0, 0), (0, 0, -1, 0), (0, 0, 0, -1)), ((1, 1, 0, 0), (1, -1, 0, 1), (0, 0, 2, 0), (0, 1, 0, 1))],
    "T2": [((1, 1, 0), (0, 1, 0), (0, 0, 1)), ((1, 0, 1), (0, 1, 0), (1, 0, 2)), ((2, 0, 0), (0, 1, 0), (0, 0, 1)), ((0, -1, 2), (1, 0, -1), (0, 0, 1))],
    "T3": [((1, 1, 0, 0), (0, 1, 0, 0), (0, 0, 1, 0), (0, 0, 0, 1)), ((1, 0, 0, 1), (0, 1, 0, 0), (0, 0, 1, 0), (1, 0, 1, 2)), ((0, 0, 1, 0), (1, 0, 0, 0), (0, 1, 0, 0), (0, 0, 0, 1))],
    "SEG2": [((0, 0, 1), (2, 1, 1)), ((1, 1, 1), (1, 4, 1)), ((-1, 2, 1), (3, 0, 1)), ((0, 0, 1), (4, 2, 1))],
    "SEG3": [((0, 0, 0, 1), (2, 1, 2, 1)), ((1, 1, 1, 1), (1, 1, -2, 1)), ((0, 1, 1, 1), (2, 1, 0, 1))],
    "POLY2": [((0, 0, 1), (2, 0, 1), (2, 2, 1), (0, 2, 1)), ((0, 0, 1), (2, 1, 1), (4, 0, 1), (2, 4, 1)), ((-1, 1, 1), (3, 1, 1), (3, 2, 1), (-1, 2, 1))],
    "TRI2": [((0, 0, 1), (4, 0, 1), (0, 3, 1)), ((0, 0, 1), (0, 3, 1), (4, 0, 1)), ((1, 1, 1), (5, 2, 1), (2, 4, 1))],
    "POLY3": [((0, 0, 1, 1), (2, 0, 1, 1), (2, 2, 1, 1), (0, 2, 1, 1)), ((1, -2, 0, 1), (3, -2, 4, 1), (3, 0, 2, 1), (1, 0, -2, 1)), ((3, 0, 0, 1), (1, 2, 0, 1), (-1, 2, 2, 1), (1, 0, 2, 1))],
    "CUB": [((0, 0, 0), (2, 0, 0), (0, 1, 0), (0, 0, 3)), ((1, -1, 0), (2, -1, 0), (1, 1, 0), (1, -1, 2))],
    "NUM": [2, -3],
    # objects defined by a centre point (whose representative can be rescaled) and radii
    "CIRC": [((1, 2, 1), 3), ((0, 0, 1), 1), ((-4, 2, 2), 2), ((3, -1, 1), 0.5)],
    "SPH": [((1, 2, 3, 1), 2), ((0, 0, 0, 1), 1), ((2, -4, 0, 2), 3)],
}

LAMBDAS = [-3, -2, -1, -0.5, 0.5, 2, 3]
LAMBDAS_COMPLEX = [1j, -1j, 1 + 1j]
LAMBDAS_THOROUGH = [-0.25, 0.25, 5, -5, 10, -10, 0.1, -0.1]  # still "moderate": 1e-3 already trips the absolute 1e-8 tolerances in compound operations


def ncomponents(kind):
    """Number of separately scalable components of an object of this kind (rows of a polytope; 1 otherwise)."""
    return {"SEG2": 2, "SEG3": 2, "POLY2": 4, "TRI2": 3, "POLY3": 4, "L3": 1, "CUB": 0, "NUM": 0, "CIRC": 1, "SPH": 1}.get(kind, 1)


def build(G, kind, spec, dtype=float, scale=None):
    """The real object for a specification. scale = (component index, factor) multiplies the homogeneous coordinates
    of one component (the whole coordinate vector / matrix for non-polytopes, one vertex for polytopes)."""
    A = lambda v: np.array(v, dtype=complex if (scale and isinstance(scale[1], complex)) else dtype)  # noqa: E731
    lam = scale[1] if scale else 1
    comp = scale[0] if scale else 0
    if kind == "NUM":
        return spec
    if kind in ("P2", "P3"):
        return G.Point(A(spec) * lam)
    if kind == "L2":
        return G.Line(A(spec) * lam)
    if kind == "E3":
        return G.Plane(A(spec) * lam)
    if kind == "L3":
        l = G.Line(G.Point(A(spec[0])), G.Point(A(spec[1])))
        if scale:
            l2 = l.copy()
            l2.array = l.array * lam
            return l2
        return l
    if kind in ("CON", "DCON"):
        return G.Conic(A(spec) * lam)
    if kind == "Q3":
        return G.Quadric(A(spec) * lam)
    if kind in ("T2", "T3"):
        return G.Transformation(A(spec) * lam)
    if kind in ("SEG2", "SEG3", "POLY2", "POLY3", "TRI2"):
        cls = {"SEG2": G.Segment, "SEG3": G.Segment, "POLY2": G.Polygon, "POLY3": G.Polygon, "TRI2": G.Triangle}[kind]
        pts = [G.Point(A(v) * (lam if (scale and i == comp) else 1)) for i, v in enumerate(spec)]
        return cls(*pts)
    if kind == "CUB":
        return G.Cuboid(*[G.Point(*v) for v in spec])
    if kind == "CIRC":
        return G.Circle(G.Point(A(spec[0]) * lam), spec[1])
    if kind == "SPH":
        return G.Sphere(G.Point(A(spec[0]) * lam), spec[1])
    raise KeyError(kind)


COLLECTABLE = {"P2", "L2", "P3", "E3", "L3", "CON", "Q3", "T2", "T3", "SEG2", "SEG3", "POLY2", "POLY3"}


def build_collection(G, kind, specs, shape, dtype=float):
    """A collection of the given leading shape holding the objects of `specs` (len(specs) == prod(shape))."""
    arr = np.array(specs, dtype=dtype)
    arr = arr.reshape(tuple(shape) + arr.shape[1:])
    if kind in ("P2", "P3"):
        return G.PointCollection(arr)
    if kind == "L2":
        return G.LineCollection(arr)
    if kind == "E3":
        return G.PlaneCollection(arr)
    if kind == "L3":
        return G.LineCollection(G.PointCollection(arr[..., 0, :]), G.PointCollection(arr[..., 1, :]))
    if kind in ("CON", "Q3"):
        return G.QuadricCollection(arr)
    if kind in ("T2", "T3"):
        return G.TransformationCollection(arr)
    if kind in ("SEG2", "SEG3"):
        return G.SegmentCollection(G.PointCollection(arr[..., 0, :]), G.PointCollection(arr[..., 1, :]))
    if kind in ("POLY2", "POLY3"):
        return G.PolygonCollection(*[G.PointCollection(arr[..., k, :]) for k in range(arr.shape[-2])])
    raise KeyError(kind)


# ---------------------------------------------------------------------------------------------------


@dataclass
class Op:
    name: str
    kinds: tuple
    fn: Callable
    res: str
    coll: bool = True
    configs: list | None = None  # custom list of spec tuples (default: product of the pools)
    c03: bool = True
    c12: bool = True
    nmax: int = 24


def col2(params, a=(0, 1, 1), b=(2, 1, 0)):
    return tuple(tuple(ai + x * bi for ai, bi in zip(a, b)) for x in params)


COLLINEAR4 = [col2((0, 1, 2, 3)), col2((-1, 0, 2, 5)), col2((0, 1, -2, 3), (1, 2, 1), (1, -1, 0)), col2((1, 3, 0, -1), (0, 0, 1), (1, 1, 0))]
COLLINEAR3 = [c[:3] for c in COLLINEAR4]
COLLINEAR4_3D = [tuple(tuple(ai + x * bi for ai, bi in zip(a, b)) for x in ps) for a, b, ps in (((0, 1, 1, 1), (2, 1, 0, 0), (0, 1, 2, 3)), ((1, 0, 2, 1), (1, -1, 1, 0), (-1, 0, 2, 5)))]
CONCURRENT4 = [((1, 0, -1), (0, 1, -2), (1, 1, -3), (1, -1, 1)), ((1, 2, 0), (2, -1, 0), (1, 1, 0), (0, 1, 0)), ((1, 0, 0), (0, 1, 0), (1, 1, 0), (1, -2, 0))]
COAXIAL4 = [((1, 0, 0, 0), (0, 1, 0, 0), (1, 1, 0, 0), (1, -2, 0, 0)), ((1, 0, 1, -1), (0, 1, 0, -2), (1, 1, 1, -3), (1, -1, 1, 1))]
COPLANAR_LINES = [(((0, 0, 0, 1), (1, 0, 0, 1)), ((0, 0, 0, 1), (0, 1, 0, 1))), (((1, 2, 3, 1), (0, 0, 0, 1)), ((1, 2, 3, 1), (2, 0, -1, 1))), (((0, 1, 1, 1), (2, 1, 0, 1)), ((1, 1, 0, 0), (0, 1, 1, 1)))]
ON_CONIC = [(((1, 0, 0), (0, 1, 0), (0, 0, -25)), (3, 4, 1)), (((1, 0, 0), (0, 1, 0), (0, 0, -25)), (-5, 0, 1)), (((0, 1, 0), (1, 0, 0), (0, 0, -2)), (1, 1, 1)), (((1, 0, 0), (0, 1, 0), (0, 0, -1)), (3, 4, 5))]
OFF_CONIC = [(((1, 0, 0), (0, 1, 0), (0, 0, -25)), (7, 1, 1)), (((1, 0, 0), (0, 1, 0), (0, 0, -1)), (2, 0, 1)), (((0, 1, 0), (1, 0, 0), (0, 0, -2)), (0, 0, 1))]
ON_Q3 = [(((1, 0, 0, 0), (0, 1, 0, 0), (0, 0, 1, 0), (0, 0, 0, -9)), (1, 2, 2, 1)), (((1, 0, 0, 0), (0, 1, 0, 0), (0, 0, 1, 0), (0, 0, 0, -9)), (3, 0, 0, 1)), (((1, 0, 0, 0), (0, 1, 0, 0), (0, 0, -1, 0), (0, 0, 0, -1)), (1, 1, 1, 1))]
PLANE_PAR_LINE = [((0, 0, 1, -2), ((1, 2, 5, 1), (1, 0, 0, 0))), ((1, 1, 0, 0), ((1, 2, 3, 1), (1, -1, 2, 0)))]
FOCI_CONICS = [(((9, 0, 0), (0, 25, 0), (0, 0, -225)),), (((1, 0, 0), (0, -1, 0), (0, 0, -1)),), (((16, 0, -16), (0, 25, 50), (-16, 50, -284)),)]
TWO_CONICS = [(((1, 0, 0), (0, 1, 0), (0, 0, -25)), ((1, 0, -6), (0, 1, 0), (-6, 0, 11))), (((1, 0, 0), (0, 1, 0), (0, 0, -4)), ((0, 1, 0), (1, 0, 0), (0, 0, -2))), (((2, 0, 1), (0, -1, 0), (1, 0, -1)), ((1, 0, 0), (0, 1, 0), (0, 0, -1)))]
PERP_PAIRS_L2 = [((1, 2, 3), (2, -1, 0)), ((1, 0, -1), (0, 1, 5)), ((1, 2, 3), (1, 1, 1)), ((3, -4, 2), (4, 3, 0))]
PAR_PAIRS_L2 = [((1, 2, 3), (2, 4, -1)), ((1, 2, 3), (1, 1, 1)), ((0, 1, -2), (0, 3, 5))]
PAR_PAIRS_E3 = [((1, 2, 3, -1), (2, 4, 6, 5)), ((1, 2, 3, -1), (1, 1, 1, 1)), ((1, -1, 0, 0), (-1, 1, 0, 3))]
PERP_PAIRS_E3 = [((1, -1, 0, 0), (1, 1, 0, 2)), ((1, 2, 3, -1), (1, 1, 1, 1)), ((0, 0, 1, -2), (1, 0, 0, 5))]
CONC_L3 = [(((0, 0, 0, 1), (1, 0, 0, 0)), ((0, 0, 0, 1), (1, 1, 0, 0))), (((1, 2, 3, 1), (1, -1, 2, 0)), ((1, 2, 3, 1), (0, 1, 1, 0)))]
COCIRC = [((5, 0, 1), (0, 5, 1), (-5, 0, 1), (3, 4, 1)), ((5, 0, 1), (0, 5, 1), (-5, 0, 1), (3, 3, 1)), ((0, 0, 1), (2, 0, 1), (2, 2, 1), (0, 2, 1)), ((0, 0, 1), (2, 0, 1), (2, 2, 1), (1, 3, 1))]


def _vals(x):
    return x


OPS = [
    # ---- 2D incidence geometry
    Op("join(P,P)", ("P2", "P2"), lambda G, a, b: G.join(a, b), "obj"),
    Op("meet(L,L)", ("L2", "L2"), lambda G, a, b: G.meet(a, b), "obj"),
    Op("L.contains(P)", ("L2", "P2"), lambda G, l, p: l.contains(p), "bool"),
    Op("L.contains(P):incident", ("L2", "P2"), lambda G, l, p: l.contains(p), "bool", configs=[((1, 2, 3), (1, -2, 1)), ((1, -1, 0), (2, 2, 1)), ((0, 1, -2), (5, 2, 1)), ((1, 2, 3), (2, -1, 0))]),
    Op("dist(P,P)", ("P2", "P2"), lambda G, a, b: G.dist(a, b), "num"),
    Op("dist(P,L)", ("P2", "L2"), lambda G, p, l: G.dist(p, l), "num"),
    Op("dist(L,P)", ("L2", "P2"), lambda G, l, p: G.dist(l, p), "num"),
    Op("angle(P,P,P)", ("P2", "P2", "P2"), lambda G, a, b, c: G.angle(a, b, c), "angle", configs=[((0, 0, 1), (1, 1, 1), (1, 0, 1)), ((1, 2, 1), (3, -1, 2), (-2, 1, 1)), ((2, 2, 1), (0, 0, 1), (4, 3, 1)), ((1, 2, 1), (4, 3, 1), (1, 5, 1))]),
    Op("angle(L,L)", ("L2", "L2"), lambda G, a, b: G.angle(a, b), "angle"),
    Op("crossratio(P,P,P,P)", ("P2",) * 4, lambda G, a, b, c, d: G.crossratio(a, b, c, d), "num", configs=COLLINEAR4),
    Op("crossratio(L,L,L,L)", ("L2",) * 4, lambda G, a, b, c, d: G.crossratio(a, b, c, d), "num", configs=CONCURRENT4),
    Op("crossratio(P,P,P,P,from)", ("P2",) * 5, lambda G, a, b, c, d, o: G.crossratio(a, b, c, d, o), "num", configs=[c + ((3, 5, 2),) for c in COLLINEAR4] + [((1, 2, 1), (0, 0, 1), (3, -1, 2), (-2, 1, 1), (4, 3, 1))]),
    Op("harmonic_set(P,P,P)", ("P2",) * 3, lambda G, a, b, c: G.harmonic_set(a, b, c), "obj", configs=COLLINEAR3),
    Op("L.perpendicular(P)", ("L2", "P2"), lambda G, l, p: l.perpendicular(p), "obj"),
    Op("L.parallel(P)", ("L2", "P2"), lambda G, l, p: l.parallel(p), "obj"),
    Op("L.project(P)", ("L2", "P2"), lambda G, l, p: l.project(p), "obj"),
    Op("L.mirror(P)", ("L2", "P2"), lambda G, l, p: l.mirror(p), "obj"),
    Op("is_perpendicular(L,L)", ("L2", "L2"), lambda G, a, b: G.is_perpendicular(a, b), "bool", configs=PERP_PAIRS_L2),
    Op("L.is_parallel(L)", ("L2", "L2"), lambda G, a, b: a.is_parallel(b), "bool", configs=PAR_PAIRS_L2),
    Op("is_collinear(P,P,P)", ("P2",) * 3, lambda G, a, b, c: G.is_collinear(a, b, c), "bool", configs=COLLINEAR3 + [((1, 2, 1), (0, 0, 1), (3, -1, 2)), ((2, 2, 1), (0, 0, 1), (4, 3, 1))]),
    Op("is_concurrent(L,L,L)", ("L2",) * 3, lambda G, a, b, c: G.is_concurrent(a, b, c), "bool", configs=[c[:3] for c in CONCURRENT4] + [((1, 2, 3), (1, -1, 0), (0, 1, -2))]),
    Op("is_cocircular(P,P,P,P)", ("P2",) * 4, lambda G, a, b, c, d: G.is_cocircular(a, b, c, d), "bool", configs=COCIRC),
    Op("angle_bisectors(L,L)", ("L2", "L2"), lambda G, a, b: list(G.angle_bisectors(a, b)), "objs", configs=[((1, 2, 3), (2, -1, 0)), ((1, 0, -1), (1, 1, 5)), ((3, -4, 2), (0, 1, -2))]),
    Op("L.base_point", ("L2",), lambda G, l: l.base_point, "obj"),
    Op("L.direction", ("L2",), lambda G, l: l.direction, "obj"),
    Op("L.basis_matrix", ("L2",), lambda G, l: l.basis_matrix, "arr", c03=False),
    Op("L.general_point", ("L2",), lambda G, l: l.general_point, "obj", c03=False),
    Op("P.isinf", ("P2",), lambda G, p: p.isinf, "bool"),
    Op("P.isreal", ("P2",), lambda G, p: p.isreal, "bool"),
    Op("P.normalized_array", ("P2",), lambda G, p: p.normalized_array, "arr"),
    Op("P+P", ("P2", "P2"), lambda G, a, b: a + b, "obj"),
    Op("P-P", ("P2", "P2"), lambda G, a, b: a - b, "obj"),
    Op("P*c", ("P2", "NUM"), lambda G, a, c: a * c, "obj"),
    Op("P==P", ("P2", "P2"), lambda G, a, b: a == b, "bool", coll=False),
    Op("L==L", ("L2", "L2"), lambda G, a, b: a == b, "bool", coll=False),
    # ---- 3D incidence geometry
    Op("join(P3,P3)", ("P3", "P3"), lambda G, a, b: G.join(a, b), "obj"),
    Op("join(P3,P3,P3)", ("P3",) * 3, lambda G, a, b, c: G.join(a, b, c), "obj", nmax=16),
    Op("join(L3,P3)", ("L3", "P3"), lambda G, l, p: G.join(l, p), "obj"),
    Op("meet(E,E)", ("E3", "E3"), lambda G, a, b: G.meet(a, b), "obj"),
    Op("meet(E,E,E)", ("E3",) * 3, lambda G, a, b, c: G.meet(a, b, c), "obj", nmax=16),
    Op("meet(E,L3)", ("E3", "L3"), lambda G, e, l: G.meet(e, l), "obj"),
    Op("meet(L3,L3)", ("L3", "L3"), lambda G, a, b: G.meet(a, b), "obj", configs=COPLANAR_LINES),
    Op("join(L3,L3)", ("L3", "L3"), lambda G, a, b: G.join(a, b), "obj", configs=COPLANAR_LINES),
    Op("E.contains(P3)", ("E3", "P3"), lambda G, e, p: e.contains(p), "bool"),
    Op("E.contains(P3):incident", ("E3", "P3"), lambda G, e, p: e.contains(p), "bool", configs=[((1, 2, 3, -1), (1, 0, 0, 1)), ((1, -1, 0, 0), (2, 2, 5, 1)), ((0, 0, 1, -2), (3, 1, 4, 2))]),
    Op("E.contains(L3)", ("E3", "L3"), lambda G, e, l: e.contains(l), "bool", configs=[((0, 0, 1, -2), ((1, 2, 2, 1), (0, 0, 2, 1))), ((1, -1, 0, 0), ((2, 2, 5, 1), (0, 0, 0, 1))), ((1, 2, 3, -1), ((1, 2, 3, 1), (0, 0, 0, 1)))]),
    Op("L3.contains(P3)", ("L3", "P3"), lambda G, l, p: l.contains(p), "bool", configs=[(((1, 2, 3, 1), (0, 0, 0, 1)), (2, 4, 6, 1)), (((1, 2, 3, 1), (0, 0, 0, 1)), (2, 4, 5, 1)), (((0, 0, 0, 1), (1, -1, 2, 0)), (3, -3, 6, 1))]),
    Op("dist(P3,P3)", ("P3", "P3"), lambda G, a, b: G.dist(a, b), "num"),
    Op("dist(P3,E)", ("P3", "E3"), lambda G, p, e: G.dist(p, e), "num"),
    Op("dist(P3,L3)", ("P3", "L3"), lambda G, p, l: G.dist(p, l), "num"),
    Op("dist(E,L3):parallel", ("E3", "L3"), lambda G, e, l: G.dist(e, l), "num", configs=PLANE_PAR_LINE),
    Op("dist(E,E):parallel", ("E3", "E3"), lambda G, a, b: G.dist(a, b), "num", configs=[PAR_PAIRS_E3[0], PAR_PAIRS_E3[2]]),
    Op("angle(P3,P3,P3)", ("P3",) * 3, lambda G, a, b, c: G.angle(a, b, c), "angle", configs=[((0, 0, 0, 1), (1, 2, 3, 1), (2, 0, -1, 1)), ((1, 1, 1, 1), (0, 1, 1, 1), (3, 1, 0, 2))]),
    Op("angle(E,E)", ("E3", "E3"), lambda G, a, b: G.angle(a, b), "angle", configs=[((1, 2, 3, -1), (1, -1, 0, 0)), ((0, 0, 1, -2), (1, 1, 1, 1)), ((2, 0, 1, 3), (1, 2, 3, -1))]),
    Op("angle(L3,L3)", ("L3", "L3"), lambda G, a, b: G.angle(a, b), "angle", configs=CONC_L3),
    Op("E.perpendicular(P3)", ("E3", "P3"), lambda G, e, p: e.perpendicular(p), "obj"),
    Op("E.project(P3)", ("E3", "P3"), lambda G, e, p: e.project(p), "obj"),
    Op("E.mirror(P3)", ("E3", "P3"), lambda G, e, p: e.mirror(p), "obj"),
    Op("E.parallel(P3)", ("E3", "P3"), lambda G, e, p: e.parallel(p), "obj"),
    Op("L3.perpendicular(P3)", ("L3", "P3"), lambda G, l, p: l.perpendicular(p), "obj", nmax=10),
    Op("L3.project(P3)", ("L3", "P3"), lambda G, l, p: l.project(p), "obj", nmax=10),
    Op("L3.mirror(P3)", ("L3", "P3"), lambda G, l, p: l.mirror(p), "obj", nmax=10),
    Op("L3.parallel(P3)", ("L3", "P3"), lambda G, l, p: l.parallel(p), "obj", nmax=10),
    Op("is_coplanar(P3,P3,P3,P3)", ("P3",) * 4, lambda G, a, b, c, d: G.is_coplanar(a, b, c, d), "bool", configs=[((0, 0, 0, 1), (1, 0, 0, 1), (0, 1, 0, 1), (1, 1, 0, 1)), ((0, 0, 0, 1), (1, 0, 0, 1), (0, 1, 0, 1), (1, 1, 1, 1)), ((1, 2, 3, 1), (2, 0, -1, 1), (0, 1, 1, 1), (3, 1, 0, 2))]),
    Op("L3.is_coplanar(L3)", ("L3", "L3"), lambda G, a, b: a.is_coplanar(b), "bool", configs=COPLANAR_LINES + [(((1, 2, 3, 1), (0, 0, 0, 1)), ((2, 0, -1, 1), (0, 1, 1, 1)))]),
    Op("is_perpendicular(E,E)", ("E3", "E3"), lambda G, a, b: G.is_perpendicular(a, b), "bool", configs=PERP_PAIRS_E3),
    Op("E.is_parallel(E)", ("E3", "E3"), lambda G, a, b: a.is_parallel(b), "bool", configs=PAR_PAIRS_E3),
    Op("crossratio(E,E,E,E)", ("E3",) * 4, lambda G, a, b, c, d: G.crossratio(a, b, c, d), "num", configs=COAXIAL4),
    Op("crossratio(P3,P3,P3,P3)", ("P3",) * 4, lambda G, a, b, c, d: G.crossratio(a, b, c, d), "num", configs=COLLINEAR4_3D),
    Op("harmonic_set(P3,P3,P3)", ("P3",) * 3, lambda G, a, b, c: G.harmonic_set(a, b, c), "obj", configs=[c[:3] for c in COLLINEAR4_3D]),
    Op("L3.base_point", ("L3",), lambda G, l: l.base_point, "obj", c03=False),
    Op("L3.direction", ("L3",), lambda G, l: l.direction, "obj"),
    Op("L3.covariant_tensor", ("L3",), lambda G, l: l.covariant_tensor, "obj"),
    Op("E.basis_matrix", ("E3",), lambda G, e: e.basis_matrix, "arr", c03=False),
    Op("E.general_point", ("E3",), lambda G, e: e.general_point, "obj", c03=False),
    Op("E.isinf", ("E3",), lambda G, e: e.isinf, "bool"),
    # ---- transformations
    Op("T*P", ("T2", "P2"), lambda G, t, p: t * p, "obj"),
    Op("T*L", ("T2", "L2"), lambda G, t, l: t * l, "obj"),
    Op("T*CON", ("T2", "CON"), lambda G, t, c: t * c, "obj"),
    Op("T*SEG", ("T2", "SEG2"), lambda G, t, s: t * s, "poly"),
    Op("T*POLY", ("T2", "POLY2"), lambda G, t, s: t * s, "poly"),
    Op("T*T", ("T2", "T2"), lambda G, s, t: s * t, "obj"),
    Op("T.inverse()", ("T2",), lambda G, t: t.inverse(), "obj"),
    Op("T**2", ("T2",), lambda G, t: t**2, "obj"),
    Op("T**-1", ("T2",), lambda G, t: t**-1, "obj"),
    Op("T**0", ("T2",), lambda G, t: t**0, "obj"),
    Op("T**3", ("T2",), lambda G, t: t**3, "obj"),
    Op("T3**0", ("T3",), lambda G, t: t**0, "obj"),
    Op("T3**-2", ("T3",), lambda G, t: t**-2, "obj"),
    Op("T3*P3", ("T3", "P3"), lambda G, t, p: t * p, "obj"),
    Op("T3*E", ("T3", "E3"), lambda G, t, e: t * e, "obj"),
    Op("T3*L3", ("T3", "L3"), lambda G, t, l: t * l, "obj"),
    Op("T3*Q3", ("T3", "Q3"), lambda G, t, q: t * q, "obj"),
    Op("T3*POLY3", ("T3", "POLY3"), lambda G, t, s: t * s, "poly"),
    Op("T3.inverse()", ("T3",), lambda G, t: t.inverse(), "obj"),
    Op("T3*CUB", ("T3", "CUB"), lambda G, t, c: t * c, "poly", coll=False, c03=False),
    # ---- quadrics
    Op("CON.contains(P):on", ("CON", "P2"), lambda G, c, p: c.contains(p), "bool", configs=ON_CONIC),
    Op("CON.contains(P):off", ("CON", "P2"), lambda G, c, p: c.contains(p), "bool", configs=OFF_CONIC),
    Op("CON.intersect(L)", ("CON", "L2"), lambda G, c, l: c.intersect(l), "objs"),
    Op("CON.tangent(P):on", ("CON", "P2"), lambda G, c, p: c.tangent(p), "obj", configs=ON_CONIC, coll=False),
    Op("CON.tangent(P):off", ("CON", "P2"), lambda G, c, p: list(c.tangent(p)), "objs", configs=OFF_CONIC, coll=False),
    Op("CON.polar(P)", ("CON", "P2"), lambda G, c, p: c.polar(p), "obj", coll=False),
    Op("CON.dual", ("CON",), lambda G, c: c.dual, "obj"),
    Op("CON.is_tangent(L)", ("CON", "L2"), lambda G, c, l: c.is_tangent(l), "bool", configs=[(ON_CONIC[0][0], (3, 4, -25)), (ON_CONIC[0][0], (1, 0, -5)), (ON_CONIC[0][0], (1, 2, 3)), (ON_CONIC[2][0], (1, 1, -2)), (ON_CONIC[3][0], (1, 1, 0))]),
    Op("CON.is_degenerate", ("CON",), lambda G, c: c.is_degenerate, "bool"),
    Op("DCON.is_degenerate", ("DCON",), lambda G, c: c.is_degenerate, "bool", coll=False),
    Op("DCON.components", ("DCON",), lambda G, c: c.components, "objs", coll=False),
    Op("DCON.intersect(L)", ("DCON", "L2"), lambda G, c, l: c.intersect(l), "objs", coll=False, configs=[(d, l) for d in POOL["DCON"] for l in [(1, 2, 3), (1, -1, 1), (3, -4, 2)]]),
    Op("CON.intersect(CON)", ("CON", "CON"), lambda G, a, b: a.intersect(b), "objs", configs=TWO_CONICS, coll=False),
    Op("CON.foci", ("CON",), lambda G, c: list(c.foci), "objs", configs=FOCI_CONICS, coll=False),
    Op("Q3.contains(P3)", ("Q3", "P3"), lambda G, q, p: q.contains(p), "bool", configs=ON_Q3 + [(POOL["Q3"][0], (1, 2, 3, 1)), (POOL["Q3"][2], (0, 0, 0, 1))]),
    Op("Q3.intersect(L3)", ("Q3", "L3"), lambda G, q, l: q.intersect(l), "objs", nmax=10),
    Op("Q3.tangent(P3)", ("Q3", "P3"), lambda G, q, p: q.tangent(p), "obj", configs=ON_Q3),
    Op("Q3.is_tangent(E)", ("Q3", "E3"), lambda G, q, e: q.is_tangent(e), "bool", configs=[(POOL["Q3"][0], (1, 0, 0, -3)), (POOL["Q3"][0], (1, 2, 2, -9)), (POOL["Q3"][0], (1, 2, 3, -1)), (POOL["Q3"][1], (1, 0, 0, 1))]),
    Op("Q3.dual", ("Q3",), lambda G, q: q.dual, "obj"),
    Op("Q3.is_degenerate", ("Q3",), lambda G, q: q.is_degenerate, "bool"),
    # ---- polytopes
    Op("SEG.contains(P)", ("SEG2", "P2"), lambda G, s, p: s.contains(p), "bool", configs=[(s, p) for s in POOL["SEG2"] for p in [(1, 0.5, 1), (2, 1, 1), (0, 0, 1), (4, 2, 1), (6, 3, 1), (1, 2, 1), (1, 1, 1), (-2, -1, 1)]]),
    Op("SEG.intersect(SEG)", ("SEG2", "SEG2"), lambda G, a, b: a.intersect(b), "objs", coll=False),
    Op("SEG.intersect(L)", ("SEG2", "L2"), lambda G, s, l: s.intersect(l), "objs", coll=False),
    Op("SEG.midpoint", ("SEG2",), lambda G, s: s.midpoint, "obj"),
    Op("SEG.length", ("SEG2",), lambda G, s: s.length, "num"),
    Op("dist(P,SEG)", ("P2", "SEG2"), lambda G, p, s: G.dist(p, s), "num"),
    Op("POLY.contains(P)", ("POLY2", "P2"), lambda G, s, p: s.contains(p), "bool", configs=[(s, p) for s in POOL["POLY2"] for p in [(1, 1, 1), (2, 1, 1), (0, 0, 1), (3, 1, 1), (5, 5, 1), (2, 2, 1), (-1, 1, 1), (1, 3, 2)]]),
    Op("POLY.intersect(L)", ("POLY2", "L2"), lambda G, s, l: s.intersect(l), "objs", coll=False),
    Op("POLY.area", ("POLY2",), lambda G, s: s.area, "num"),
    Op("POLY.centroid", ("POLY2",), lambda G, s: s.centroid, "obj", coll=False),
    Op("POLY.edges", ("POLY2",), lambda G, s: s.edges, "poly", c03=False),
    Op("POLY.vertices", ("POLY2",), lambda G, s: s.vertices, "objs", coll=False, c03=False),
    Op("dist(P,POLY)", ("P2", "POLY2"), lambda G, p, s: G.dist(p, s), "num", configs=[(p, s) for s in POOL["POLY2"] for p in [(5, 5, 1), (-2, 1, 1), (3, -1, 2), (4, 3, 1)]]),
    Op("POLY==POLY", ("POLY2", "POLY2"), lambda G, a, b: a == b, "bool", coll=False),
    Op("TRI.contains(P)", ("TRI2", "P2"), lambda G, s, p: s.contains(p), "bool", coll=False, configs=[(s, p) for s in POOL["TRI2"] for p in [(1, 1, 1), (0, 0, 1), (2, 0, 1), (4, 3, 1), (2, 1.5, 1), (3, 3, 1), (2, 2, 1)]]),
    Op("TRI.circumcenter", ("TRI2",), lambda G, s: s.circumcenter, "obj", coll=False),
    Op("TRI.area", ("TRI2",), lambda G, s: s.area, "num", coll=False),
    Op("TRI.volume", ("TRI2",), lambda G, s: s.volume, "num", coll=False),
    Op("SEG3.contains(P3)", ("SEG3", "P3"), lambda G, s, p: s.contains(p), "bool", configs=[(s, p) for s in POOL["SEG3"] for p in [(1, 0.5, 1, 1), (2, 1, 2, 1), (1, 1, 0, 1), (1, 1, 1, 1), (4, 2, 4, 1), (1, 1, 0.5, 1)]]),
    Op("SEG3.intersect(E)", ("SEG3", "E3"), lambda G, s, e: s.intersect(e), "objs", coll=False),
    Op("SEG3.midpoint", ("SEG3",), lambda G, s: s.midpoint, "obj"),
    Op("SEG3.length", ("SEG3",), lambda G, s: s.length, "num"),
    Op("dist(P3,SEG3)", ("P3", "SEG3"), lambda G, p, s: G.dist(p, s), "num"),
    Op("POLY3.contains(P3)", ("POLY3", "P3"), lambda G, s, p: s.contains(p), "bool", configs=[(POOL["POLY3"][0], p) for p in [(1, 1, 1, 1), (2, 1, 1, 1), (3, 1, 1, 1), (1, 1, 2, 1), (0, 0, 1, 1)]] + [(POOL["POLY3"][1], p) for p in [(2, -1, 1, 1), (1, -2, 0, 1), (2, -1, 2, 1), (5, -1, 7, 1)]] + [(POOL["POLY3"][2], p) for p in [(1, 1, 1, 1), (3, 0, 0, 1), (0, 0, 0, 1), (2, 1, 0, 1)]]),
    Op("POLY3.area", ("POLY3",), lambda G, s: s.area, "num"),
    Op("POLY3.centroid", ("POLY3",), lambda G, s: s.centroid, "obj", coll=False),
    Op("POLY3.intersect(L3)", ("POLY3", "L3"), lambda G, s, l: s.intersect(l), "objs", coll=False, configs=[(POOL["POLY3"][0], ((1, 1, 0, 1), (1, 1, 3, 1))), (POOL["POLY3"][0], ((1, 1, 0, 1), (2, 2, 3, 1))), (POOL["POLY3"][0], ((5, 1, 0, 1), (5, 1, 3, 1))), (POOL["POLY3"][1], ((2, -1, 1, 1), (0, 0, 0, 1))), (POOL["POLY3"][2], ((1, 1, 1, 1), (0, 0, 0, 1)))]),
    Op("dist(P3,POLY3)", ("P3", "POLY3"), lambda G, p, s: G.dist(p, s), "num", configs=[(p, s) for s in POOL["POLY3"] for p in [(1, 1, 4, 1), (5, 5, 1, 1), (0, 0, 0, 1), (2, 0, -1, 1)]]),
    Op("CUB.intersect(L3)", ("CUB", "L3"), lambda G, c, l: c.intersect(l), "objs", coll=False, c03=False, configs=[(POOL["CUB"][0], ((1, 0.5, -1, 1), (1, 0.5, 4, 1))), (POOL["CUB"][0], ((-1, 0.5, 1, 1), (3, 0.5, 2, 1))), (POOL["CUB"][1], ((0, 0, 1, 1), (3, 0, 1, 1))), (POOL["CUB"][0], ((5, 5, 5, 1), (6, 5, 5, 1)))]),
    Op("CUB.area", ("CUB",), lambda G, c: c.area, "num", coll=False, c03=False),
    Op("CUB.faces", ("CUB",), lambda G, c: c.faces, "poly", coll=False, c03=False),
    Op("CUB.edges", ("CUB",), lambda G, c: c.edges, "polys", coll=False, c03=False),
    Op("dist(P3,CUB)", ("P3", "CUB"), lambda G, p, c: G.dist(p, c), "num", coll=False, configs=[(p, c) for c in POOL["CUB"] for p in [(3, 0, 0, 1), (1, 2, 3, 1), (0, 0, 0, 1), (4, 4, 4, 1)]]),
]

FIVE_POINTS = [((0, 0, 1), (2, 0, 1), (0, 1, 1), (3, 2, 1), (-1, 3, 1)), ((1, 1, 1), (-2, 1, 1), (0, -1, 1), (3, 0, 1), (2, 4, 1)), ((0, 0, 1), (1, 0, 0), (0, 1, 1), (2, 3, 1), (-1, 2, 1))]
TANGENT_CFG = [((1, 1, -4), (0, 0, 1), (2, 0, 1), (0, 1, 1), (1, -1, 1)), ((1, 0, -5), (0, 0, 1), (2, 1, 1), (1, 3, 1), (-1, 1, 1)), ((2, -1, 7), (1, 1, 1), (-2, 1, 1), (0, -1, 1), (3, 0, 1))]
FOCI_CFG = [((-2, 0, 1), (2, 0, 1), (1, 3, 1)), ((0, 0, 1), (3, 1, 1), (1, 4, 1)), ((-1, -1, 1), (2, 0, 1), (3, 3, 1))]
FRAMES2 = [((0, 0, 1), (1, 0, 1), (0, 1, 1), (1, 1, 1), (2, 1, 1), (-1, 3, 1), (0, -2, 1), (4, 4, 2)), ((1, 0, 1), (0, 2, 1), (-1, -1, 1), (2, 2, 1), (0, 0, 1), (2, 0, 1), (2, 2, 1), (0, 2, 1))]

OPS += [
    # ---- constructors (representative independence of the defining data; purity)
    Op("Line(P,P)", ("P2", "P2"), lambda G, a, b: G.Line(a, b), "obj", coll=False),
    Op("Plane(P3,P3,P3)", ("P3",) * 3, lambda G, a, b, c: G.Plane(a, b, c), "obj", nmax=12, coll=False),
    Op("Conic.from_points", ("P2",) * 5, lambda G, *p: G.Conic.from_points(*p), "obj", configs=FIVE_POINTS, coll=False),
    Op("Conic.from_tangent", ("L2",) + ("P2",) * 4, lambda G, l, *p: G.Conic.from_tangent(l, *p), "obj", configs=TANGENT_CFG, coll=False),
    Op("Conic.from_foci", ("P2",) * 3, lambda G, a, b, c: G.Conic.from_foci(a, b, c), "obj", configs=FOCI_CFG, coll=False),
    Op("Conic.from_lines", ("L2", "L2"), lambda G, a, b: G.Conic.from_lines(a, b), "obj", coll=False),
    Op("Quadric.from_planes", ("E3", "E3"), lambda G, a, b: G.Quadric.from_planes(a, b), "obj", coll=False),
    Op("Circle(P,r)", ("P2", "NUM"), lambda G, c, r: G.Circle(c, abs(r)), "obj", coll=False, configs=[(p, r) for p in POOL["P2"] if p[-1] != 0 for r in (2, 3)]),
    Op("Ellipse(P,a,b)", ("P2",), lambda G, c: G.Ellipse(c, 2, 3), "obj", coll=False, configs=[(p,) for p in POOL["P2"] if p[-1] != 0]),
    Op("Sphere(P3,r)", ("P3",), lambda G, c: G.Sphere(c, 2), "obj", coll=False, configs=[(p,) for p in POOL["P3"] if p[-1] != 0]),
    Op("Cone(P3,P3,r)", ("P3", "P3"), lambda G, v, b: G.Cone(v, b, 2), "obj", coll=False, configs=[(a, b) for a in POOL["P3"][:5] for b in POOL["P3"][:5] if a != b]),
    Op("Cylinder(P3,P3,r)", ("P3", "P3"), lambda G, c, d: G.Cylinder(c, d, 2), "obj", coll=False, configs=[(a, b) for a in POOL["P3"][:5] for b in ((1, 0, 0, 1), (1, 2, -2, 1), (0, 1, 1, 1))]),
    Op("Segment(P,P)", ("P2", "P2"), lambda G, a, b: G.Segment(a, b), "poly", coll=False, configs=[(a, b) for a in POOL["P2"] for b in POOL["P2"] if a != b][:20]),
    Op("Polygon(P,P,P,P)", ("P2",) * 4, lambda G, *p: G.Polygon(*p), "poly", coll=False, configs=[((0, 0, 1), (2, 0, 1), (2, 2, 1), (0, 2, 1)), ((0, 0, 1), (2, 1, 1), (4, 0, 1), (2, 4, 1))]),
    Op("RegularPolygon(P,r,n)", ("P2",), lambda G, c: G.RegularPolygon(c, 2, 5), "poly", coll=False, configs=[(p,) for p in POOL["P2"] if p[-1] != 0]),
    Op("Cuboid(P3,P3,P3,P3)", ("P3",) * 4, lambda G, *p: G.Cuboid(*p), "poly", coll=False, configs=[((0, 0, 0, 1), (2, 0, 0, 1), (0, 1, 0, 1), (0, 0, 3, 1)), ((1, 2, 3, 1), (2, 2, 3, 1), (1, 4, 3, 1), (1, 2, 4, 1))]),
    Op("translation(P)", ("P2",), lambda G, p: G.translation(p), "obj", coll=False, configs=[(p,) for p in POOL["P2"] if p[-1] != 0]),
    Op("translation(P3)", ("P3",), lambda G, p: G.translation(p), "obj", coll=False, configs=[(p,) for p in POOL["P3"] if p[-1] != 0]),
    Op("rotation(a,axis)", ("P3",), lambda G, p: G.rotation(0.7, axis=p), "arr_proj", coll=False, configs=[(p,) for p in POOL["P3"] if p[-1] != 0 and any(p[:3])]),
    Op("reflection(L)", ("L2",), lambda G, l: G.reflection(l), "obj", coll=False),
    Op("reflection(E)", ("E3",), lambda G, e: G.reflection(e), "obj", coll=False),
    Op("Transformation.from_points", ("P2",) * 8, lambda G, *p: G.Transformation.from_points(*zip(p[:4], p[4:])), "obj", coll=False, configs=FRAMES2),
    Op("L+P", ("L2", "P2"), lambda G, l, p: l + p, "obj", coll=False, configs=[(l, p) for l in POOL["L2"] for p in POOL["P2"] if p[-1] != 0][:16]),
    Op("CON+P", ("CON", "P2"), lambda G, c, p: c + p, "obj", coll=False, configs=[(c, p) for c in POOL["CON"] for p in POOL["P2"] if p[-1] != 0][:16]),
    Op("POLY+P", ("POLY2", "P2"), lambda G, s, p: s + p, "poly", coll=False, configs=[(s, p) for s in POOL["POLY2"] for p in POOL["P2"] if p[-1] != 0][:12]),
    # ---- predicates with more than dim + 1 arguments (mixed outcomes across a collection)
    Op("is_collinear(P,P,P,P)", ("P2",) * 4, lambda G, a, b, c, d: G.is_collinear(a, b, c, d), "bool", configs=COLLINEAR4 + [c[:3] + ((5, 5, 1),) for c in COLLINEAR4] + [((0, 0, 1), (1, 0, 1), (0, 1, 1), (2, 0, 1)), ((0, 0, 1), (1, 1, 1), (2, 2, 1), (1, 2, 1))]),
    Op("is_collinear(P,P,P,P,P)", ("P2",) * 5, lambda G, *p: G.is_collinear(*p), "bool", configs=[c + (c[0],) for c in COLLINEAR4] + [c + ((7, 1, 1),) for c in COLLINEAR4] + [c[:3] + ((5, 5, 1), c[3]) for c in COLLINEAR4]),
    Op("is_concurrent(L,L,L,L)", ("L2",) * 4, lambda G, a, b, c, d: G.is_concurrent(a, b, c, d), "bool", configs=CONCURRENT4 + [c[:3] + ((1, 1, 1),) for c in CONCURRENT4] + [((1, 0, 0), (0, 1, 0), (1, 2, 3), (1, 1, 0))]),
    Op("is_coplanar(P3 x5)", ("P3",) * 5, lambda G, *p: G.is_coplanar(*p), "bool", configs=[((0, 0, 0, 1), (1, 0, 0, 1), (0, 1, 0, 1), (1, 1, 0, 1), (3, -2, 0, 1)), ((0, 0, 0, 1), (1, 0, 0, 1), (0, 1, 0, 1), (1, 1, 0, 1), (3, -2, 1, 1)), ((0, 0, 0, 1), (1, 0, 0, 1), (0, 1, 0, 1), (1, 1, 1, 1), (2, 2, 0, 1)), ((1, 2, 3, 1), (2, 0, -1, 1), (0, 1, 1, 1), (3, 1, 0, 2), (0, 0, 0, 1))]),
]

OPS += [
    # ---- circles and spheres built from a centre point and a radius
    Op("CIRC.center", ("CIRC",), lambda G, c: c.center, "obj", coll=False),
    Op("CIRC.radius", ("CIRC",), lambda G, c: c.radius, "num", coll=False),
    Op("CIRC.area", ("CIRC",), lambda G, c: c.area, "num", coll=False),
    Op("CIRC.foci", ("CIRC",), lambda G, c: list(c.foci), "objs", coll=False),
    Op("CIRC.lie_coordinates", ("CIRC",), lambda G, c: c.lie_coordinates, "arr", coll=False),
    Op("CIRC.intersection_angle(CIRC)", ("CIRC", "CIRC"), lambda G, a, b: a.intersection_angle(b), "num", coll=False, configs=[(((0, 0, 1), 5), ((6, 0, 1), 5)), (((1, 2, 1), 3), ((4, 2, 1), 3)), (((0, 0, 1), 1), ((1, 1, 1), 1))]),
    Op("CIRC.contains(P)", ("CIRC", "P2"), lambda G, c, p: c.contains(p), "bool", coll=False, configs=[(((1, 2, 1), 3), (4, 2, 1)), (((1, 2, 1), 3), (1, 5, 1)), (((1, 2, 1), 3), (1, 2, 1)), (((-4, 2, 2), 2), (0, 1, 1)), (((-4, 2, 2), 2), (-2, 3, 1))]),
    Op("CIRC.intersect(L)", ("CIRC", "L2"), lambda G, c, l: c.intersect(l), "objs", coll=False),
    Op("CIRC.intersect(CIRC)", ("CIRC", "CIRC"), lambda G, a, b: a.intersect(b), "objs", coll=False, configs=[(((0, 0, 1), 5), ((6, 0, 1), 5)), (((1, 2, 1), 3), ((4, 2, 1), 3))]),
    Op("CIRC.tangent(P)", ("CIRC", "P2"), lambda G, c, p: c.tangent(p), "obj", coll=False, configs=[(((1, 2, 1), 3), (4, 2, 1)), (((0, 0, 1), 1), (0, -1, 1)), (((-4, 2, 2), 2), (0, 1, 1))]),
    Op("CIRC.dual", ("CIRC",), lambda G, c: c.dual, "obj", coll=False),
    Op("T*CIRC", ("T2", "CIRC"), lambda G, t, c: t * c, "obj", coll=False),
    Op("CIRC+P", ("CIRC", "P2"), lambda G, c, p: c + p, "obj", coll=False, configs=[(c, p) for c in POOL["CIRC"] for p in [(1, 2, 1), (3, -1, 2), (-2, 1, 1)]]),
    Op("SPH.center", ("SPH",), lambda G, c: c.center, "obj", coll=False),
    Op("SPH.radius", ("SPH",), lambda G, c: c.radius, "num", coll=False),
    Op("SPH.volume", ("SPH",), lambda G, c: c.volume, "num", coll=False),
    Op("SPH.area", ("SPH",), lambda G, c: c.area, "num", coll=False),
    Op("SPH.contains(P3)", ("SPH", "P3"), lambda G, c, p: c.contains(p), "bool", coll=False, configs=[(((1, 2, 3, 1), 2), (3, 2, 3, 1)), (((1, 2, 3, 1), 2), (1, 2, 3, 1)), (((0, 0, 0, 1), 1), (0, 0, -1, 1)), (((2, -4, 0, 2), 3), (1, 1, 0, 1)), (((2, -4, 0, 2), 3), (1, 1, 1, 1))]),
    Op("SPH.intersect(L3)", ("SPH", "L3"), lambda G, c, l: c.intersect(l), "objs", coll=False, nmax=8),
    Op("SPH.tangent(P3)", ("SPH", "P3"), lambda G, c, p: c.tangent(p), "obj", coll=False, configs=[(((1, 2, 3, 1), 2), (3, 2, 3, 1)), (((0, 0, 0, 1), 1), (0, 0, -1, 1))]),
    Op("SPH.dual", ("SPH",), lambda G, c: c.dual, "obj", coll=False),
    Op("T3*SPH", ("T3", "SPH"), lambda G, t, c: t * c, "obj", coll=False),
    Op("SPH+P3", ("SPH", "P3"), lambda G, c, p: c + p, "obj", coll=False, configs=[(c, p) for c in POOL["SPH"] for p in [(1, 2, 3, 1), (3, 1, 0, 2)]]),
    # ---- further public members
    Op("POLY.angles", ("POLY2",), lambda G, s: np.array([np.asarray(a) for a in s.angles]), "angle", coll=False),
    Op("POLY.facets", ("POLY2",), lambda G, s: s.facets, "polys", coll=False, c03=False),
    Op("SEG.vertices", ("SEG2",), lambda G, s: s.vertices, "objs", coll=False),
    Op("P.join(P)", ("P2", "P2"), lambda G, a, b: a.join(b), "obj"),
    Op("L.meet(L)", ("L2", "L2"), lambda G, a, b: a.meet(b), "obj"),
    Op("L3.contravariant_tensor", ("L3",), lambda G, l: l.covariant_tensor.contravariant_tensor, "obj"),
    Op("E.meet(E)", ("E3", "E3"), lambda G, a, b: a.meet(b), "obj"),
    Op("P3.join(P3,P3)", ("P3",) * 3, lambda G, a, b, c: a.join(b, c), "obj", nmax=10),
    Op("T.apply(P)", ("T2", "P2"), lambda G, t, p: t.apply(p), "obj"),
    Op("Conic.from_crossratio", ("P2",) * 4, lambda G, a, b, c, d: G.Conic.from_crossratio(2.0, a, b, c, d), "obj", coll=False, configs=[f[:4] for f in FIVE_POINTS[:2]], c03=False),
]

OP_BY_NAME = {o.name: o for o in OPS}
assert len(OP_BY_NAME) == len(OPS), "duplicate op names"


def op_configs(op, factor=1):
    """Specification tuples an operation is evaluated on (simplest first, bounded by factor * nmax)."""
    if op.configs is not None:
        return [tuple(c) for c in op.configs]
    pools = [POOL[k] for k in op.kinds]
    out = []
    for cfg in itertools.product(*pools):
        out.append(cfg)
    # spread over the pools rather than exhausting the last argument first
    nmax = op.nmax * factor
    if len(out) > nmax:
        step = len(out) / nmax
        out = [out[int(i * step)] for i in range(nmax)]
    return out


def _distinct(vs):
    import itertools as _it

    from mc import exact as _X

    return all(_X.irank([[int(2 * x) for x in a], [int(2 * x) for x in b]]) == 2 for a, b in _it.combinations(vs, 2))


def valid_spec(op, spec):
    """Input combinations the compared properties do not define (used when C04 mixes specifications of different
    configurations): two points at infinity for dist, coincident points for angle / harmonic_set / crossratio."""
    n = op.name
    pts = [s for k, s in zip(op.kinds, spec) if k in ("P2", "P3")]
    if n.startswith("dist(") and sum(1 for p in pts if p[-1] == 0) and len(pts) == 2 and all(p[-1] == 0 for p in pts):
        return False
    if n.startswith("dist(") and any(p[-1] == 0 for p in pts) and len(pts) < len(spec):
        return False  # distance of a point at infinity to a line / plane / polytope is not defined by the statement
    if n.startswith(("angle(P", "harmonic_set", "crossratio(P", "is_cocircular")):
        if not _distinct(pts):
            return False
    if n.startswith(("harmonic_set", "crossratio(P")):
        from mc import exact as _X

        if _X.irank([[int(x) for x in p] for p in pts[:4]]) != 2:
            return False
    return True
