"""C18: polytope intersections return exactly the common points."""
from __future__ import annotations

import itertools
from fractions import Fraction as F

import numpy as np

from checks import shapeslib as SL
from mc.compare import proj_eq
from mc.core import family, lattice


def P(G, v, w=1.0):
    return G.Point(np.array([float(x) * w for x in v] + [w]))


def sub(a, b):
    return [F(x) - F(y) for x, y in zip(a, b)]


def cross3(u, v):
    return [u[1] * v[2] - u[2] * v[1], u[2] * v[0] - u[0] * v[2], u[0] * v[1] - u[1] * v[0]]


def dot(u, v):
    return sum(F(x) * F(y) for x, y in zip(u, v))


def line_line_2d(a, b, c, d):
    """Lines ab and cd in the plane: ('point', X, t, s) with X = a + t (b - a) = c + s (d - c); 'parallel'; 'same'."""
    r, s_ = sub(b, a), sub(d, c)
    den = r[0] * s_[1] - r[1] * s_[0]
    ca = sub(c, a)
    if den == 0:
        return ("same",) if ca[0] * r[1] - ca[1] * r[0] == 0 else ("parallel",)
    t = (ca[0] * s_[1] - ca[1] * s_[0]) / den
    s = (ca[0] * r[1] - ca[1] * r[0]) / den
    return ("point", [F(a[0]) + t * r[0], F(a[1]) + t * r[1]], t, s)


def pts_match(got, want, tol=1e-7):
    """got: list of coordinate arrays; want: list of exact affine points. Equal as sets, no duplicates in got."""
    w = [np.array([float(x) for x in p] + [1.0]) for p in want]
    if len(got) != len(w):
        return False
    used = set()
    for g in got:
        k = next((i for i, x in enumerate(w) if i not in used and proj_eq(g, x, tol)), None)
        if k is None:
            return False
        used.add(k)
    return True


def as_arrays(res):
    return [np.asarray(x.array) for x in res]


def all_points(G, res):
    return all(isinstance(x, G.point.PointTensor) and x.free_indices == 0 for x in res)


# ---------------------------------------------------------------------------------------------------


PTS2 = [(x, y) for x in (-1, 0, 1) for y in (-1, 0, 1)]


def enum_seg2(tier, seed):
    for a, b in itertools.permutations(PTS2, 2):
        yield (a, b)


@family("C18", "segment_segment_line_2d", enum_seg2)
def case_seg2(ctx, cfg):
    import geometer as G

    a, b = cfg
    S = G.Segment(P(G, a), P(G, b, -2.0))
    extra = [(F(1, 2), F(1, 2)), (F(-1, 2), 0), (0, F(1, 2)), (2, 1)]
    others = [(c, d) for c, d in itertools.permutations(PTS2 + extra, 2)]
    for c, d in others[:: (1 if ctx.tier == "thorough" else 2)]:
        rel = line_line_2d(a, b, c, d)
        ctx.state((a, b, tuple(c), tuple(d)))
        T = G.Segment(P(G, c), P(G, d))
        L = G.Line(P(G, c), P(G, d, 3.0))
        inputs = {"segment": [a, b], "other": [[str(x) for x in c], [str(x) for x in d]]}
        if rel[0] == "point":
            _, X, t, s = rel
            want_ss = [X] if 0 <= t <= 1 and 0 <= s <= 1 else []
            want_sl = [X] if 0 <= t <= 1 else []
            kind = "crossing" if 0 < t < 1 and 0 < s < 1 else "touching" if want_ss else "apart"
        else:
            want_ss = want_sl = None if rel[0] == "same" else []
            kind = "collinear" if rel[0] == "same" else "parallel"
        ctx.tally(kind)
        for other, want, tag in ((T, want_ss, "segment"), (L, want_sl, "line")):
            r, e = ctx.call(S.intersect, other)
            ctx.trace()
            if e is not None:
                ctx.fail(f"segment2d-{tag}:{kind}:{type(e).__name__}", "intersect", inputs, want, e)
                return
            if not all_points(G, r):
                ctx.fail(f"segment2d-{tag}:{kind}:result-type", "intersect", inputs, "list of Point", [type(x).__name__ for x in r])
                return
            got = as_arrays(r)
            if want is None:
                # infinitely many common points (collinear operands): only "no spurious point" is required
                for g in got:
                    if not (S.contains(G.Point(g)) and other.contains(G.Point(g))):
                        ctx.fail(f"segment2d-{tag}:collinear:spurious-point", "intersect", inputs, "points of both", got)
                        return
                continue
            if not pts_match(got, want):
                ctx.fail(f"segment2d-{tag}:{kind}", "intersect", inputs, [[str(x) for x in p] for p in want], got)
                return
        if rel[0] == "point":
            r, e = ctx.call(T.intersect, S)
            if e is not None or not pts_match(as_arrays(r), want_ss):
                ctx.fail(f"segment2d-segment:{kind}:swapped", "intersect", inputs, [[str(x) for x in p] for p in want_ss], e if e is not None else as_arrays(r))
                return
    # collection operands: this segment against a SegmentCollection of all lattice segments
    pairs = [(c, d) for c, d in itertools.permutations(PTS2, 2) if line_line_2d(a, b, c, d)[0] != "same"]
    SC = G.SegmentCollection(G.PointCollection(np.array([list(map(float, c)) + [1.0] for c, d in pairs])), G.PointCollection(np.array([list(map(float, d)) + [1.0] for c, d in pairs])))
    r, e = ctx.call(S.intersect, SC)
    ctx.trace(len(pairs))
    want = []
    for c, d in pairs:
        rel = line_line_2d(a, b, c, d)
        if rel[0] == "point" and 0 <= rel[2] <= 1 and 0 <= rel[3] <= 1:
            want.append(rel[1])
    if e is not None:
        ctx.fail(f"segment2d-segmentcollection:{type(e).__name__}", "intersect", {"segment": [a, b]}, "points", e)
        return
    got = as_arrays(r)
    # one point per intersecting pair (duplicates across different pairs are legitimate here)
    wv = [np.array([float(x) for x in p] + [1.0]) for p in want]
    if len(got) != len(wv) or not all(any(proj_eq(g, w, 1e-7) for w in wv) for g in got) or not all(any(proj_eq(g, w, 1e-7) for g in got) for w in wv):
        ctx.fail("segment2d-segmentcollection:points", "intersect", {"segment": [a, b]}, len(wv), len(got))


# ---------------------------------------------------------------------------------------------------


PTS3 = [(x, y, z) for x in (-1, 0, 1) for y in (-1, 0, 1) for z in (-1, 0, 1)]


def enum_seg3(tier, seed):
    for i, (a, b) in enumerate(itertools.combinations(PTS3, 2)):
        if tier == "thorough" or i % 4 == 0:
            yield (a, b)


@family("C18", "segment_plane_segment_3d", enum_seg3)
def case_seg3(ctx, cfg):
    import geometer as G
    from geometer.exceptions import NotCoplanar

    a, b = cfg
    S = G.Segment(P(G, a), P(G, b, 2.0))
    d = sub(b, a)
    # planes
    for h in lattice(4, 1):
        if not any(h[:3]):
            continue
        va = dot(h[:3], a) + h[3]
        vb = dot(h[:3], b) + h[3]
        ctx.state((a, b, "plane", h))
        E = G.Plane(np.array(h, dtype=float))
        r, e = ctx.call(S.intersect, E)
        ctx.trace()
        inputs = {"segment": [a, b], "plane": h}
        if va == 0 and vb == 0:
            ctx.tally("segment-in-plane")
            if e is not None:
                ctx.fail(f"segment3d-plane:in-plane:{type(e).__name__}", "intersect", inputs, "no spurious point", e)
                return
            if any(not (S.contains(x) and E.contains(x)) for x in r):
                ctx.fail("segment3d-plane:in-plane:spurious-point", "intersect", inputs, "points of both", as_arrays(r))
                return
            continue
        if va == vb:
            want, kind = [], "parallel"
        else:
            t = va / (va - vb)
            want = [[F(x) + t * y for x, y in zip(a, d)]] if 0 <= t <= 1 else []
            kind = "pierced" if 0 < t < 1 else "endpoint-touch" if want else "missed"
        ctx.tally("plane:" + kind)
        if e is not None or not all_points(G, r) or not pts_match(as_arrays(r), want):
            ctx.fail(f"segment3d-plane:{kind}", "intersect", inputs, [[str(x) for x in p] for p in want], e if e is not None else as_arrays(r))
            return
    # other segments of 3-space
    for c, d2 in itertools.combinations(PTS3, 2):
        if hash((c, d2)) % (1 if ctx.tier == "thorough" else 5):
            continue
        r_, s_ = sub(b, a), sub(d2, c)
        ca = sub(c, a)
        n = cross3(r_, s_)
        cop = dot(n, ca) == 0
        ctx.state((a, b, "segment", c, d2))
        T = G.Segment(P(G, c), P(G, d2))
        res, e = ctx.call(S.intersect, T)
        ctx.trace()
        inputs = {"segment": [a, b], "other": [c, d2]}
        if not any(n):
            # parallel or collinear
            collinear = not any(cross3(r_, ca))
            ctx.tally("segments3d:" + ("collinear" if collinear else "parallel"))
            if e is not None:
                ctx.fail(f"segment3d-segment:{'collinear' if collinear else 'parallel'}:{type(e).__name__}", "intersect", inputs, [], e)
                return
            if not collinear and len(res) != 0:
                ctx.fail("segment3d-segment:parallel:spurious-point", "intersect", inputs, [], as_arrays(res))
                return
            continue
        if not cop:
            ctx.tally("segments3d:skew")
            # documented: NotCoplanar for skew operands; counts as "no points"
            if e is not None and not isinstance(e, NotCoplanar):
                ctx.fail(f"segment3d-segment:skew:{type(e).__name__}", "intersect", inputs, "no points (NotCoplanar accepted)", e)
                return
            if e is None and len(res) != 0:
                ctx.fail("segment3d-segment:skew:spurious-point", "intersect", inputs, [], as_arrays(res))
                return
            continue
        nn = dot(n, n)
        t = dot(cross3(ca, s_), n) / nn
        s = dot(cross3(ca, r_), n) / nn
        want = [[F(x) + t * y for x, y in zip(a, r_)]] if 0 <= t <= 1 and 0 <= s <= 1 else []
        kind = "crossing" if want and 0 < t < 1 and 0 < s < 1 else "touching" if want else "apart"
        ctx.tally("segments3d:" + kind)
        if e is not None or not all_points(G, res) or not pts_match(as_arrays(res), want):
            ctx.fail(f"segment3d-segment:{kind}", "intersect", inputs, [[str(x) for x in p] for p in want], e if e is not None else as_arrays(res))
            return


# ---------------------------------------------------------------------------------------------------


def enum_poly2(tier, seed):
    for name in SL.POLYGONS:
        yield (name,)


def poly_line_exact(poly, c, d, segment):
    """Exact common points of a polygon boundary with the line / segment cd. Returns (points, overlap)."""
    n = len(poly)
    pts, overlap = [], False
    for i in range(n):
        a, b = poly[i], poly[(i + 1) % n]
        rel = line_line_2d(a, b, c, d)
        if rel[0] == "same":
            overlap = True
        elif rel[0] == "point":
            _, X, t, s = rel
            if 0 <= t <= 1 and (not segment or 0 <= s <= 1):
                if X not in pts:
                    pts.append(X)
    return pts, overlap


@family("C18", "polygon2d_line_segment", enum_poly2)
def case_poly2(ctx, cfg):
    import geometer as G

    (name,) = cfg
    poly = SL.POLYGONS[name]
    convex = name in ("square", "rectangle", "triangle_ccw", "triangle_cw", "quad_skew", "pentagon", "triangle_obtuse")
    rots = SL.rotations(poly)
    xs = [v[0] for v in poly]
    ys = [v[1] for v in poly]
    box = [(x, y) for x in range(min(xs) - 1, max(xs) + 2) for y in range(min(ys) - 1, max(ys) + 2)]
    pairs = list(itertools.combinations(box, 2))
    step = 1 if ctx.tier == "thorough" else max(1, len(pairs) // 250)
    for ri, (rname, verts) in enumerate(rots[: (len(rots) if ctx.tier == "thorough" else 3)]):
        Pg = G.Polygon(*[P(G, v) for v in verts])
        for c, d in pairs[ri::step]:
            for segment in (False, True):
                want, overlap = poly_line_exact(poly, c, d, segment)
                ctx.state((name, rname, c, d, segment))
                other = G.Segment(P(G, c), P(G, d)) if segment else G.Line(P(G, c), P(G, d))
                r, e = ctx.call(Pg.intersect, other)
                ctx.trace()
                tag = "segment" if segment else "line"
                inputs = {"polygon": name, "vertices": verts, tag: [c, d]}
                if e is not None:
                    ctx.fail(f"polygon2d-{tag}:{type(e).__name__}", "intersect", inputs, want, e)
                    return
                got = as_arrays(r)
                if not all_points(G, r):
                    ctx.fail(f"polygon2d-{tag}:result-type", "intersect", inputs, "list of Point", [type(x).__name__ for x in r])
                    return
                if overlap:
                    ctx.tally(f"{tag}:contains-an-edge")
                    # the isolated common points must be present, every returned point must be a common point, no duplicates
                    edges = Pg.edges
                    for g in got:
                        if not (np.any(edges.contains(G.Point(g))) and other.contains(G.Point(g))):
                            ctx.fail(f"polygon2d-{tag}:edge-overlap:spurious-point", "intersect", inputs, "common points", got)
                            return
                    if any(proj_eq(g1, g2, 1e-9) for g1, g2 in itertools.combinations(got, 2)):
                        ctx.fail(f"polygon2d-{tag}:edge-overlap:duplicate", "intersect", inputs, "each point once", got)
                        return
                    continue
                ctx.tally(f"{tag}:{len(want)}-points" + (":convex" if convex else ""))
                if not pts_match(got, want):
                    ctx.fail(f"polygon2d-{tag}:points", "intersect", inputs, [[str(x) for x in p] for p in want], got)
                    return
                if convex and not segment and len(want) not in (0, 1, 2):
                    raise AssertionError("oracle: a line meets a convex polygon boundary in at most 2 points")


    # collections with two axes behind the scenes: a PolygonCollection of this polygon and a shifted copy (mask polygons x
    # edges), and the edges as a SegmentCollection of shape (2, n): the distinct common points, each once, as Point objects
    poly_b = [(x + 1, y) for x, y in poly]
    PC = G.PolygonCollection([G.Polygon(*[P(G, v) for v in poly]), G.Polygon(*[P(G, v) for v in poly_b])])
    n = len(poly)
    SC = G.SegmentCollection(np.array([[[list(map(float, pl[i])) + [1.0], list(map(float, pl[(i + 1) % n])) + [1.0]] for i in range(n)] for pl in (poly, poly_b)]))
    for c, d in pairs[:: max(1, len(pairs) // 40)]:
        for segment in (False, True):
            w1, o1 = poly_line_exact(poly, c, d, segment)
            w2, o2 = poly_line_exact(poly_b, c, d, segment)
            if o1 or o2:
                continue
            want = list(w1) + [x for x in w2 if x not in w1]
            other = G.Segment(P(G, c), P(G, d)) if segment else G.Line(P(G, c), P(G, d))
            tag = "segment" if segment else "line"
            # a SegmentCollection answers pair by pair: one point per edge that is met (a vertex hit counts for both edges)
            per_edge = []
            for pl in (poly, poly_b):
                for i in range(n):
                    rel = line_line_2d(pl[i], pl[(i + 1) % n], c, d)
                    if rel[0] == "point" and 0 <= rel[2] <= 1 and (not segment or 0 <= rel[3] <= 1):
                        per_edge.append(rel[1])
            for label, obj in (("polygoncollection", PC), ("segmentcollection-2axes", SC)):
                r, e = ctx.call(obj.intersect, other)
                ctx.trace()
                ctx.state((name, label, c, d, segment))
                inputs = {"polygon": name, "shifted_copy": poly_b, tag: [c, d]}
                if label.startswith("segmentcollection"):
                    ok = e is None and all_points(G, r) and len(r) == len(per_edge) and pts_match(as_arrays(r)[:0] + [g for i, g in enumerate(as_arrays(r)) if not any(proj_eq(g, h, 1e-9) for h in as_arrays(r)[:i])], want)
                    if not ok:
                        ctx.fail(f"{label}-{tag}:{type(e).__name__ if e is not None else 'points'}", "intersect", inputs, [[str(x) for x in p_] for p_ in per_edge], e if e is not None else as_arrays(r))
                        return
                    continue
                if e is not None or not all_points(G, r) or not pts_match(as_arrays(r), want):
                    ctx.fail(f"{label}-{tag}:{type(e).__name__ if e is not None else 'points' if all_points(G, r) else 'result-type'}", "intersect", inputs, [[str(x) for x in p_] for p_ in want], e if e is not None else (as_arrays(r) if all_points(G, r) else [type(x).__name__ for x in r]))
                    return


# ---------------------------------------------------------------------------------------------------


def pip3(V3, X):
    """Exact membership of the in-plane point X in the planar polygon V3 of 3-space (project along the dominant normal axis)."""
    n = cross3(sub(V3[1], V3[0]), sub(V3[2], V3[0]))
    k = max(range(3), key=lambda i: abs(n[i]))
    keep = [i for i in range(3) if i != k]
    poly2 = [tuple(F(v[i]) for i in keep) for v in V3]
    return SL.pip(poly2, tuple(F(X[i]) for i in keep))


def line_polygon3_exact(V3, p, q, segment):
    """('point', X) / ('none',) / ('in-plane',)"""
    n = cross3(sub(V3[1], V3[0]), sub(V3[2], V3[0]))
    d = sub(q, p)
    den = dot(n, d)
    num = dot(n, sub(V3[0], p))
    if den == 0:
        return ("in-plane",) if num == 0 else ("none",)
    t = num / den
    if segment and not (0 <= t <= 1):
        return ("none",)
    X = [F(a) + t * b for a, b in zip(p, d)]
    return ("point", X, pip3(V3, X)) if pip3(V3, X) != "outside" else ("none",)


def enum_poly3(tier, seed):
    for name in ("square", "triangle_ccw", "dart", "L", "quad_skew"):
        for emb in SL.EMBEDDINGS:
            yield (name, emb)


@family("C18", "polygon3d_line_segment", enum_poly3)
def case_poly3(ctx, cfg):
    import geometer as G

    name, emb = cfg
    poly = SL.POLYGONS[name]
    V3 = [SL.embed(emb, *v) for v in poly]
    Pg = G.Polygon(*[P(G, v) for v in V3])
    nrm = SL.normal(emb)
    # lines through (in-plane half-grid point) with several directions: the normal, skew directions, in-plane directions
    o, u, v = SL.EMBEDDINGS[emb]
    dirs = [nrm, tuple(a + b for a, b in zip(nrm, u)), tuple(2 * a - b for a, b in zip(nrm, v)), u, tuple(a + b for a, b in zip(u, v))]
    qs = SL.half_grid(poly)[:: (1 if ctx.tier == "thorough" else 3)]
    for q2 in qs:
        base = SL.embed(emb, *q2)
        for di, dvec in enumerate(dirs):
            for shift in ((0, 1) if di < 3 else (0,)):
                p = [F(b) - (1 + shift) * F(x) for b, x in zip(base, dvec)]
                q = [F(b) + (2 - 3 * shift) * F(x) for b, x in zip(base, dvec)]  # shift=1: the segment stops short of the plane
                for segment in (False, True):
                    rel = line_polygon3_exact(V3, p, q, segment)
                    ctx.state((name, emb, tuple(q2), di, shift, segment))
                    other = G.Segment(P(G, p), P(G, q)) if segment else G.Line(P(G, p), P(G, q))
                    r, e = ctx.call(Pg.intersect, other)
                    ctx.trace()
                    tag = "segment" if segment else "line"
                    inputs = {"polygon": name, "embedding": emb, "vertices": V3, tag: [[str(x) for x in p], [str(x) for x in q]]}
                    if rel[0] == "in-plane":
                        ctx.tally(f"{tag}:in-plane")
                        if e is not None:
                            ctx.fail(f"polygon3d-{tag}:in-plane:{type(e).__name__}", "intersect", inputs, "no spurious points, no exception", e)
                            return
                        for g in as_arrays(r):
                            if not (on_some_face([V3], g) and on_line_through(p, q, g, segment)):
                                ctx.fail(f"polygon3d-{tag}:in-plane:spurious-point", "intersect", inputs, "common points only", as_arrays(r))
                                return
                        continue
                    want = [rel[1]] if rel[0] == "point" else []
                    ctx.tally(f"{tag}:" + (rel[2] if rel[0] == "point" else "miss"))
                    if e is not None:
                        ctx.fail(f"polygon3d-{tag}:{type(e).__name__}", "intersect", inputs, [[str(x) for x in w] for w in want], e)
                        return
                    if not all_points(G, r):
                        ctx.fail(f"polygon3d-{tag}:result-type", "intersect", inputs, "list of Point", [type(x).__name__ for x in r])
                        return
                    if not pts_match(as_arrays(r), want):
                        ctx.fail(f"polygon3d-{tag}:points:{rel[2] if rel[0] == 'point' else 'miss'}", "intersect", inputs, [[str(x) for x in w] for w in want], as_arrays(r))
                        return


# ---------------------------------------------------------------------------------------------------


def on_some_face(faces, g):
    """Harness-side membership of a returned (float) point in one of the faces, after snapping to small rationals."""
    g = np.real_if_close(np.asarray(g))
    if abs(g[-1]) < 1e-12:
        return False
    X = [F(float(np.real(t / g[-1]))).limit_denominator(10000) for t in g[:-1]]
    for V3 in faces:
        n = cross3(sub(V3[1], V3[0]), sub(V3[2], V3[0]))
        if dot(n, sub(X, V3[0])) == 0 and pip3(V3, X) != "outside":
            return True
    return False


def on_line_through(p, q, g, segment):
    g = np.real_if_close(np.asarray(g))
    X = [F(float(np.real(t / g[-1]))).limit_denominator(10000) for t in g[:-1]]
    d, e = sub(q, p), sub(X, p)
    if any(cross3(d, e)):
        return False
    t = dot(d, e) / dot(d, d)
    return (0 <= t <= 1) if segment else True


def enum_cuboid(tier, seed):
    yield ("axis", (0, 0, 0), ((2, 0, 0), (0, 2, 0), (0, 0, 2)))
    yield ("axis", (1, -1, 0), ((1, 0, 0), (0, 2, 0), (0, 0, 3)))
    yield ("sheared", (0, 0, 0), ((2, 0, 0), (1, 2, 0), (0, 1, 2)))


@family("C18", "polyhedron_line_segment", enum_cuboid)
def case_cuboid(ctx, cfg):
    import geometer as G

    kind, c, (x, y, z) = cfg
    add = lambda p, q: tuple(a + b for a, b in zip(p, q))  # noqa: E731
    C = G.Cuboid(G.Point(*c), G.Point(*add(c, x)), G.Point(*add(c, y)), G.Point(*add(c, z)))
    faces = [[tuple(int(round(t)) for t in row[:3] / row[3]) for row in f] for f in C.array]
    grid = list(itertools.product(range(-1, 4), repeat=3))
    pairs = list(itertools.combinations(grid, 2))
    step = 1 if ctx.tier == "thorough" else max(1, len(pairs) // 1500)
    for p, q in pairs[::step]:
        for segment in (False, True):
            want, inplane = [], False
            for V3 in faces:
                rel = line_polygon3_exact(V3, p, q, segment)
                if rel[0] == "in-plane":
                    inplane = True
                elif rel[0] == "point" and rel[1] not in want:
                    want.append(rel[1])
            ctx.state((kind, c, p, q, segment))
            other = G.Segment(P(G, p), P(G, q)) if segment else G.Line(P(G, p), P(G, q))
            r, e = ctx.call(C.intersect, other)
            ctx.trace()
            tag = "segment" if segment else "line"
            inputs = {"cuboid": [c, x, y, z], tag: [p, q]}
            if inplane:
                ctx.tally(f"{tag}:in-face-plane")
                if e is not None:
                    ctx.fail(f"polyhedron-{tag}:in-face-plane:{type(e).__name__}", "intersect", inputs, "no exception, no spurious points", e)
                    return
                got = as_arrays(r)
                for g in got:
                    if not (on_some_face(faces, g) and on_line_through(p, q, g, segment)):
                        ctx.fail(f"polyhedron-{tag}:in-face-plane:spurious-point", "intersect", inputs, "common points only", got)
                        return
                for w in want:
                    if not any(proj_eq(g, np.array([float(t) for t in w] + [1.0]), 1e-7) for g in got):
                        ctx.fail(f"polyhedron-{tag}:in-face-plane:missing-point", "intersect", inputs, [[str(t) for t in w] for w in want], got)
                        return
                continue
            ctx.tally(f"{tag}:{len(want)}-points")
            if e is not None:
                ctx.fail(f"polyhedron-{tag}:{type(e).__name__}", "intersect", inputs, [[str(t) for t in w] for w in want], e)
                return
            if not all_points(G, r):
                ctx.fail(f"polyhedron-{tag}:result-type", "intersect", inputs, "list of Point", [type(t).__name__ for t in r])
                return
            if not pts_match(as_arrays(r), want):
                ctx.fail(f"polyhedron-{tag}:points", "intersect", inputs, [[str(t) for t in w] for w in want], as_arrays(r))
                return


# ---------------------------------------------------------------------------------------------------
# history: the original polytope after objects were derived from it, and the derived one after earlier queries


def enum_history(tier, seed):
    for name in ("square", "dart"):
        for emb in ("z=1", "generic"):
            yield (name, emb)


@family("C18", "intersect_after_derivation", enum_history)
def case_history(ctx, cfg):
    import geometer as G

    name, emb = cfg
    poly = SL.POLYGONS[name]
    V3 = [SL.embed(emb, *v) for v in poly]
    nrm = SL.normal(emb)
    P0 = G.Polygon(*[P(G, v) for v in V3])
    shift = (3, -2, 1)
    lines = []
    for q2 in SL.half_grid(poly)[::5]:
        base = SL.embed(emb, *q2)
        p = [F(b) - F(x) for b, x in zip(base, nrm)]
        q = [F(b) + 2 * F(x) for b, x in zip(base, nrm)]
        lines.append((p, q, line_polygon3_exact(V3, p, q, False)))

    def check(Pg, offset, tag):
        for p, q, rel in lines:
            pp = [a + b for a, b in zip(p, offset)]
            qq = [a + b for a, b in zip(q, offset)]
            want = [[a + b for a, b in zip(rel[1], offset)]] if rel[0] == "point" else []
            r, e = ctx.call(Pg.intersect, G.Line(P(G, pp), P(G, qq)))
            ctx.trace()
            ctx.state((name, emb, tag, tuple(map(str, p))))
            if e is not None or not pts_match(as_arrays(r), want):
                ctx.fail(f"polygon3d-line:{tag}", "intersect", {"polygon": name, "embedding": emb, "history": tag}, [[str(x) for x in w] for w in want], e if e is not None else as_arrays(r))
                return False
        return True

    if not check(P0, (0, 0, 0), "fresh"):
        return
    _ = ctx.call(lambda: (P0.area, P0.edges, P0.centroid))
    Pt = G.translation(*shift) * P0
    Pr = G.rotation(0.5, axis=G.Point(1, 1, 0)) * P0
    Pa = P0 + G.Point(*shift)
    if not check(Pt, shift, "transformed-after-queries"):
        return
    if not check(Pa, shift, "shifted-by-point-after-queries"):
        return
    if not check(P0, (0, 0, 0), "original-after-derivations"):
        return
    C = G.Cuboid(G.Point(0, 0, 0), G.Point(2, 0, 0), G.Point(0, 2, 0), G.Point(0, 0, 2))
    L = G.Line(G.Point(1, 1, -1), G.Point(1, 1, 3))
    r0, e0 = ctx.call(C.intersect, L)
    Ct = G.translation(5, 0, 0) * C
    r1, e1 = ctx.call(Ct.intersect, G.Line(G.Point(6, 1, -1), G.Point(6, 1, 3)))
    r2, e2 = ctx.call(C.intersect, L)
    ok = e0 is None and e1 is None and e2 is None and pts_match(as_arrays(r0), [[1, 1, 0], [1, 1, 2]]) and pts_match(as_arrays(r1), [[6, 1, 0], [6, 1, 2]]) and pts_match(as_arrays(r2), [[1, 1, 0], [1, 1, 2]])
    if not ok:
        ctx.fail("polyhedron-line:history", "intersect", {"cuboid": "0..2 cube", "history": "intersect, translate, intersect both"}, "two face points each", e0 or e1 or e2 or [as_arrays(r0), as_arrays(r1), as_arrays(r2)])


# ---------------------------------------------------------------------------------------------------
# rays (segments with one endpoint at infinity)


def enum_rays(tier, seed):
    for a in PTS2:
        for d in lattice(2, 1):
            yield (a, d)


@family("C18", "ray_line_segment_2d", enum_rays)
def case_rays(ctx, cfg):
    import geometer as G

    a, d = cfg
    b = (a[0] + d[0], a[1] + d[1])
    for order in ("finite-first", "infinite-first"):
        A, B = P(G, a), G.Point(np.array([d[0], d[1], 0], dtype=float))
        S = G.Segment(A, B) if order == "finite-first" else G.Segment(B, A)
        for c, d2 in itertools.permutations(PTS2, 2):
            rel = line_line_2d(a, b, c, d2)
            ctx.state((a, d, order, c, d2))
            T = G.Segment(P(G, c), P(G, d2))
            L = G.Line(P(G, c), P(G, d2))
            inputs = {"ray_from": a, "direction": d, "order": order, "other": [c, d2]}
            if rel[0] != "point":
                ctx.tally("collinear" if rel[0] == "same" else "parallel")
                for other, tag in ((T, "segment"), (L, "line")):
                    r, e = ctx.call(S.intersect, other)
                    ctx.trace()
                    if e is not None:
                        ctx.fail(f"ray-{tag}:{rel[0]}:{type(e).__name__}", "intersect", inputs, [], e)
                        return
                    if rel[0] == "parallel":
                        # a ray and a parallel LINE share exactly one point: the point at infinity of their direction,
                        # which is the ray's own endpoint; a finite parallel segment shares nothing with the ray
                        if tag == "line":
                            ctx.tally("parallel:common-point-at-infinity")
                            if len(r) != 1 or not proj_eq(r[0].array, np.array([d[0], d[1], 0.0]), 1e-9):
                                ctx.fail("ray-line:parallel:common-point-at-infinity", "intersect", inputs, [[d[0], d[1], 0]], as_arrays(r))
                                return
                        elif len(r) != 0:
                            ctx.fail(f"ray-{tag}:parallel:spurious-point", "intersect", inputs, [], as_arrays(r))
                            return
                continue
            _, X_, t, s_ = rel
            want_l = [X_] if t >= 0 else []
            want_s = [X_] if t >= 0 and 0 <= s_ <= 1 else []
            ctx.tally("hit" if want_s else "miss")
            for other, want, tag in ((T, want_s, "segment"), (L, want_l, "line")):
                r, e = ctx.call(S.intersect, other)
                ctx.trace()
                if e is not None or not all_points(G, r) or not pts_match(as_arrays(r), want):
                    ctx.fail(f"ray-{tag}:{'behind-the-origin-of-the-ray' if t < 0 else 'ahead'}", "intersect", inputs, [[str(x) for x in w] for w in want], e if e is not None else as_arrays(r))
                    return
            r, e = ctx.call(T.intersect, S)
            if e is not None or not pts_match(as_arrays(r), want_s):
                ctx.fail("segment-ray:swapped", "intersect", inputs, [[str(x) for x in w] for w in want_s], e if e is not None else as_arrays(r))
                return
