"""C10: perpendicular / parallel / project / mirror constructions and the Cartesian predicates."""
from __future__ import annotations

import itertools
import math
from fractions import Fraction as F

import numpy as np

from checks import xform as XF
from mc import exact as X
from mc.compare import incident, proj_eq
from mc.core import family, lattice


def aff(n, k):
    return list(itertools.product(range(-k, k + 1), repeat=n))


def fl(v):
    return np.array([float(x) for x in v])


def line_points(M):
    """Two points spanning a 3D line given by its contravariant matrix (harness-side, numeric): the line is
    {x : M^{ij} x_i = 0}."""
    M = np.asarray(M, dtype=complex)
    u, s, vh = np.linalg.svd(M.T)
    return vh[2].conj(), vh[3].conj()


def line_direction(M):
    p, q = line_points(M)
    d = q[3] * p - p[3] * q
    if np.linalg.norm(d) < 1e-12:
        d = p if abs(p[3]) < 1e-12 else q
    return d


def on_line3(M, x, tol=1e-8):
    M = np.asarray(M, dtype=complex)
    x = np.asarray(x, dtype=complex)
    return np.linalg.norm(x @ M) <= tol * np.linalg.norm(M) * np.linalg.norm(x)


# ---------------------------------------------------------------------------------------------------


# lines / planes / directions that are NEARLY (1e-3 .. 1e-4 rad) but not exactly axis-parallel or diagonal, still with exact
# integer coordinates: shortcuts and tolerances for the exactly special case must not fire for them
NEAR_LINES2 = [(1000, 1, 0), (1000, 1, -500), (1, 1000, 3), (1000, -1, 2), (1000, 999, 1), (-999, 1000, 0), (10000, 1, 7), (1, -10000, -20)]
NEAR_PLANES = [(1000, 1, 0, 0), (1000, 1, 0, -300), (1, 0, 1000, 2), (0, 1000, -1, 1), (1000, 999, 1, 0), (1, 1, 1000, -5), (10000, 0, 1, 3)]
NEAR_DIRS3 = [(1000, 1, 0), (1, 0, 1000), (0, 1000, -1), (1000, 999, 1), (1, 1, 1000), (1000, 1000, 1)]


def enum_2d(tier, seed):
    for h in lattice(3, 3 if tier == "thorough" else 2):
        if any(h[:2]):
            yield h
    for h in NEAR_LINES2:
        yield h


@family("C10", "line2d_constructions", enum_2d)
def case_2d(ctx, cfg):
    import geometer as G

    h = tuple(cfg)
    a, b, c = h
    nn = a * a + b * b
    pts = aff(2, 2)
    for dt in (np.int64, float):
        L = G.Line(np.array(h, dtype=dt))
        for qi, p in enumerate(pts):
            w = (1, 2, -1)[qi % 3]
            pt = G.Point(np.array([w * p[0], w * p[1], w], dtype=dt))
            val = a * p[0] + b * p[1] + c
            on = val == 0
            ctx.state((h, p, np.dtype(dt).name))
            ctx.tally("point-on-line" if on else "point-off-line")
            t = F(val, nn)
            foot = [F(p[0]) - t * a, F(p[1]) - t * b, F(1)]
            mir = [F(p[0]) - 2 * t * a, F(p[1]) - 2 * t * b, F(1)]
            exp = {
                "perpendicular": fl(X.cross([F(p[0]), F(p[1]), F(1)], [F(a), F(b), F(0)])),
                "parallel": fl([a, b, -(a * p[0] + b * p[1])]),
                "project": fl(foot),
                "mirror": fl(mir),
            }
            inputs = {"line": h, "p": p, "weight": w, "dtype": np.dtype(dt).name}
            for op in ("perpendicular", "parallel", "project", "mirror"):
                if op == "parallel" and False:
                    continue
                r, e = ctx.call(getattr(L, op), pt)
                ctx.trace()
                want_cls = G.Line if op in ("perpendicular", "parallel") else G.Point
                if e is not None or type(r) is not want_cls or not proj_eq(r.array, exp[op], 1e-9):
                    if op == "parallel" and on and e is not None and type(e).__name__ == "LinearDependenceError":
                        pass
                    ctx.fail(f"2d:{op}:{'on' if on else 'off'}-line", op, inputs, exp[op], e if e is not None else r.array)
                    return
            # mirror is an involution; midpoint of p and its mirror is the projection
            m1, e = ctx.call(L.mirror, pt)
            m2, e2 = ctx.call(L.mirror, m1) if e is None else (None, e)
            if e2 is not None or not proj_eq(m2.array, fl([p[0], p[1], 1]), 1e-9):
                ctx.fail("2d:mirror:involution", "mirror", inputs, [p[0], p[1], 1], e2 if e2 is not None else m2.array)
                return
    # collection forms with mixed on/off masks
    L = G.Line(np.array(h, dtype=float))
    PC = G.PointCollection(np.array([[p[0], p[1], 1] for p in pts], dtype=float))
    for op in ("perpendicular", "project", "mirror", "parallel"):
        r, e = ctx.call(getattr(L, op), PC)
        ctx.trace(len(pts))
        if e is not None:
            ctx.fail(f"2d:{op}:collection:{type(e).__name__}", op, {"line": h, "points": "all of {-2..2}^2"}, "collection", e)
            return
        for qi, p in enumerate(pts):
            t = F(a * p[0] + b * p[1] + c, nn)
            want = {
                "perpendicular": fl(X.cross([F(p[0]), F(p[1]), F(1)], [F(a), F(b), F(0)])),
                "parallel": fl([a, b, -(a * p[0] + b * p[1])]),
                "project": fl([F(p[0]) - t * a, F(p[1]) - t * b, 1]),
                "mirror": fl([F(p[0]) - 2 * t * a, F(p[1]) - 2 * t * b, 1]),
            }[op]
            if not proj_eq(r.array[qi], want, 1e-9):
                ctx.fail(f"2d:{op}:collection", op, {"line": h, "p": p, "position": qi}, want, r.array[qi])
                return
    # line collection x point collection (element-wise), lines = this line in several representatives
    reps = np.array([h, [2 * x for x in h], [-x for x in h]], dtype=float)
    LC = G.LineCollection(reps)
    P3 = G.PointCollection(np.array([[p[0], p[1], 1] for p in pts[:3]], dtype=float))
    for op in ("perpendicular", "project", "mirror"):
        r, e = ctx.call(getattr(LC, op), P3)
        if e is not None:
            ctx.fail(f"2d:{op}:linecollection:{type(e).__name__}", op, {"line": h}, "collection", e)
            return
        for k in range(3):
            p = pts[k]
            t = F(a * p[0] + b * p[1] + c, nn)
            want = {
                "perpendicular": fl(X.cross([F(p[0]), F(p[1]), F(1)], [F(a), F(b), F(0)])),
                "project": fl([F(p[0]) - t * a, F(p[1]) - t * b, 1]),
                "mirror": fl([F(p[0]) - 2 * t * a, F(p[1]) - 2 * t * b, 1]),
            }[op]
            if not proj_eq(r.array[k], want, 1e-9):
                ctx.fail(f"2d:{op}:linecollection", op, {"line": h, "p": p, "position": k}, want, r.array[k])
                return


# ---------------------------------------------------------------------------------------------------


def enum_plane(tier, seed):
    for h in lattice(4, 2 if tier == "thorough" else 1):
        if any(h[:3]):
            yield h
    for h in NEAR_PLANES:
        yield h


@family("C10", "plane_constructions", enum_plane)
def case_plane(ctx, cfg):
    import geometer as G

    h = tuple(cfg)
    n_, c = h[:3], h[3]
    nn = sum(x * x for x in n_)
    E = G.Plane(np.array(h, dtype=float))
    pts = aff(3, 1)
    for qi, p in enumerate(pts):
        w = (1, -2)[qi % 2]
        pt = G.Point(np.array([w * x for x in p] + [w], dtype=float))
        val = sum(x * y for x, y in zip(n_, p)) + c
        on = val == 0
        t = F(val, nn)
        foot = fl([F(x) - t * y for x, y in zip(p, n_)] + [1])
        mir = fl([F(x) - 2 * t * y for x, y in zip(p, n_)] + [1])
        ctx.state((h, p))
        ctx.tally("point-on-plane" if on else "point-off-plane")
        inputs = {"plane": h, "p": p, "weight": w}
        # perpendicular: the line through p with the direction of the normal
        r, e = ctx.call(E.perpendicular, pt)
        ctx.trace()
        want = XF.line3_array([F(x) for x in p] + [F(1)], [F(x) for x in n_] + [F(0)])
        if e is not None or type(r) is not G.Line or not proj_eq(r.array, want, 1e-9):
            ctx.fail(f"plane:perpendicular:{'on' if on else 'off'}", "perpendicular", inputs, want, e if e is not None else r.array)
            return
        r, e = ctx.call(E.parallel, pt)
        ctx.trace()
        wantp = fl(list(n_) + [-sum(x * y for x, y in zip(n_, p))])
        if e is not None or type(r) is not G.Plane or not proj_eq(r.array, wantp, 1e-9):
            ctx.fail(f"plane:parallel:{'on' if on else 'off'}", "parallel", inputs, wantp, e if e is not None else r.array)
            return
        r, e = ctx.call(E.project, pt)
        ctx.trace()
        if e is not None or type(r) is not G.Point or not proj_eq(r.array, foot, 1e-9):
            ctx.fail(f"plane:project:{'on' if on else 'off'}", "project", inputs, foot, e if e is not None else r.array)
            return
        r, e = ctx.call(E.mirror, pt)
        ctx.trace()
        if e is not None or not proj_eq(r.array, mir, 1e-8):
            ctx.fail(f"plane:mirror:{'on' if on else 'off'}", "mirror", inputs, mir, e if e is not None else r.array)
            return
        r2, e2 = ctx.call(E.mirror, r)
        if e2 is not None or not proj_eq(r2.array, fl(list(p) + [1]), 1e-8):
            ctx.fail("plane:mirror:involution", "mirror", inputs, list(p) + [1], e2 if e2 is not None else r2.array)
            return
    PC = G.PointCollection(np.array([list(p) + [1] for p in pts], dtype=float))
    for op in ("project", "mirror", "perpendicular", "parallel"):
        r, e = ctx.call(getattr(E, op), PC)
        ctx.trace(len(pts))
        if e is not None:
            ctx.fail(f"plane:{op}:collection:{type(e).__name__}", op, {"plane": h}, "collection", e)
            return
        for qi, p in enumerate(pts):
            t = F(sum(x * y for x, y in zip(n_, p)) + c, nn)
            if op == "project":
                want = fl([F(x) - t * y for x, y in zip(p, n_)] + [1])
            elif op == "mirror":
                want = fl([F(x) - 2 * t * y for x, y in zip(p, n_)] + [1])
            elif op == "parallel":
                want = fl(list(n_) + [-sum(x * y for x, y in zip(n_, p))])
            else:
                want = XF.line3_array([F(x) for x in p] + [F(1)], [F(x) for x in n_] + [F(0)])
            if not proj_eq(r.array[qi], want, 1e-8):
                ctx.fail(f"plane:{op}:collection", op, {"plane": h, "p": p, "position": qi}, want, r.array[qi])
                return


# ---------------------------------------------------------------------------------------------------


def enum_line3(tier, seed):
    dirs = [v for v in lattice(3, 2 if tier == "thorough" else 1) if next(x for x in v if x) > 0]
    bases = [(0, 0, 0), (1, 0, -1), (-1, 1, 1)] if tier == "quick" else aff(3, 1)
    for u in bases:
        for w in dirs:
            yield (u, w)
    for u in [(0, 0, 0), (1, 0, -1), (-1, 1, 1)]:
        for w in NEAR_DIRS3:
            yield (u, w)


@family("C10", "line3d_constructions", enum_line3)
def case_line3(ctx, cfg):
    import geometer as G

    u, w = cfg
    ww = sum(x * x for x in w)
    L = G.Line(G.Point(*u), G.Point(np.array(list(w) + [0], dtype=float)))
    pts = aff(3, 1)
    for qi, p in enumerate(pts):
        d0 = [a - b for a, b in zip(p, u)]
        t = F(sum(x * y for x, y in zip(d0, w)), ww)
        footv = [F(a) + t * b for a, b in zip(u, w)]
        on = all(F(x) == y for x, y in zip(p, footv))
        pt = G.Point(np.array([x * (1, 3)[qi % 2] for x in list(p) + [1]], dtype=float))
        ctx.state((u, w, p))
        ctx.tally("point-on-line" if on else "point-off-line")
        inputs = {"line_point": u, "line_direction": w, "p": p}
        # perpendicular
        r, e = ctx.call(L.perpendicular, pt)
        ctx.trace()
        if e is not None or type(r) is not G.Line:
            ctx.fail(f"line3d:perpendicular:{'on' if on else 'off'}:{type(e).__name__ if e is not None else 'type'}", "perpendicular", inputs, "line", e if e is not None else type(r).__name__)
            return
        d = line_direction(r.array)
        ok = on_line3(r.array, fl(list(p) + [1])) and abs(np.dot(d[:3], fl(w))) <= 1e-7 * np.linalg.norm(d) * math.sqrt(ww)
        if not on:
            ok = ok and on_line3(r.array, fl(footv + [1]))
        if not ok:
            ctx.fail(f"line3d:perpendicular:{'on' if on else 'off'}", "perpendicular", inputs, "line through p (and the foot) perpendicular to s", r.array)
            return
        # parallel
        if not on:
            r, e = ctx.call(L.parallel, pt)
            ctx.trace()
            want = XF.line3_array([F(x) for x in p] + [F(1)], [F(x) for x in w] + [F(0)])
            if e is not None or type(r) is not G.Line or not proj_eq(r.array, want, 1e-8):
                ctx.fail("line3d:parallel", "parallel", inputs, want, e if e is not None else r.array)
                return
        # project
        r, e = ctx.call(L.project, pt)
        ctx.trace()
        if e is not None or not proj_eq(r.array, fl(footv + [1]), 1e-7):
            ctx.fail(f"line3d:project:{'on' if on else 'off'}", "project", inputs, fl(footv + [1]), e if e is not None else r.array)
            return
        # mirror (documented as unhandled for points on the line)
        if not on:
            r, e = ctx.call(L.mirror, pt)
            ctx.trace()
            mir = fl([2 * f - F(x) for f, x in zip(footv, p)] + [1])
            if e is not None or not proj_eq(r.array, mir, 1e-7):
                ctx.fail("line3d:mirror", "mirror", inputs, mir, e if e is not None else r.array)
                return
            r2, e2 = ctx.call(L.mirror, r)
            if e2 is not None or not proj_eq(r2.array, fl(list(p) + [1]), 1e-6):
                ctx.fail("line3d:mirror:involution", "mirror", inputs, list(p) + [1], e2 if e2 is not None else r2.array)
                return
    # collection of points, mixed on/off
    PC = G.PointCollection(np.array([list(p) + [1] for p in pts], dtype=float))
    r, e = ctx.call(L.perpendicular, PC)
    ctx.trace(len(pts))
    if e is not None or r.array.shape != (len(pts), 4, 4):
        ctx.fail(f"line3d:perpendicular:collection:{type(e).__name__ if e is not None else 'shape'}", "perpendicular", {"line_point": u, "line_direction": w}, "collection", e if e is not None else list(r.array.shape))
        return
    for qi, p in enumerate(pts):
        d = line_direction(r.array[qi])
        if not on_line3(r.array[qi], fl(list(p) + [1])) or abs(np.dot(d[:3], fl(w))) > 1e-7 * np.linalg.norm(d) * math.sqrt(ww):
            ctx.fail("line3d:perpendicular:collection", "perpendicular", {"line_point": u, "line_direction": w, "p": p, "position": qi}, "perpendicular through p", r.array[qi])
            return
    r, e = ctx.call(L.project, PC)
    if e is not None:
        ctx.fail(f"line3d:project:collection:{type(e).__name__}", "project", {"line_point": u, "line_direction": w}, "collection", e)
        return
    for qi, p in enumerate(pts):
        d0 = [a - b for a, b in zip(p, u)]
        t = F(sum(x * y for x, y in zip(d0, w)), ww)
        want = fl([F(a) + t * b for a, b in zip(u, w)] + [1])
        if not proj_eq(r.array[qi], want, 1e-7):
            ctx.fail("line3d:project:collection", "project", {"line_point": u, "line_direction": w, "p": p, "position": qi}, want, r.array[qi])
            return


# ---------------------------------------------------------------------------------------------------
# perpendicular(through, plane=E) for a point ON a 3D line: the optional argument selects which of the perpendiculars
# through the point is meant. Every line x every lattice plane through it x three points of the line; as single objects,
# with the points as a collection, and with lines / planes / points all as collections (mixed with points off the line).


def enum_perp_in_plane(tier, seed):
    lat = [v for v in lattice(3, 1)]
    dirs = [v for v in lat if next(x for x in v if x) > 0] + (list(NEAR_DIRS3[:2]) if tier == "thorough" else [])
    for u in [(0, 0, 0), (1, 0, -1), (-1, 1, 1)] + ([(2, -2, 1)] if tier == "thorough" else []):
        for w in dirs:
            yield (u, w)


@family("C10", "line3d_perpendicular_in_plane", enum_perp_in_plane)
def case_perp_in_plane(ctx, cfg):
    import geometer as G

    u, w = cfg
    ww = sum(x * x for x in w)
    L = G.Line(G.Point(*u), G.Point(np.array(list(w) + [0], dtype=float)))
    normals = []
    for v in lattice(3, 1):
        n_ = tuple(int(x) for x in np.cross(w, v))
        if any(n_) and next(x for x in n_ if x) > 0 and not any(np.array_equal(np.cross(n_, m), (0, 0, 0)) for m in normals):
            normals.append(n_)
    ks = (-1, 0, 2)

    def judge(arr, p, n_, tag, inputs):
        d = line_direction(arr)
        nd = np.linalg.norm(d[:3])
        ok = (
            abs(d[3]) <= 1e-9 * max(nd, 1e-300) and nd > 1e-9 * np.linalg.norm(arr)
            and on_line3(arr, fl(list(p) + [1]))
            and abs(np.dot(d[:3], fl(w))) <= 1e-7 * nd * math.sqrt(ww)
            and abs(np.dot(d[:3], fl(n_))) <= 1e-7 * nd * np.linalg.norm(n_)
        )
        if not ok:
            ctx.fail(f"line3d:perpendicular-in-plane:{tag}", "perpendicular(p, plane=E)", inputs, "the line through p inside E perpendicular to s", arr)
        return ok

    for n_ in normals:
        E = G.Plane(np.array(list(n_) + [-sum(a * b for a, b in zip(n_, u))], dtype=float))
        pts = [tuple(a + k * b for a, b in zip(u, w)) for k in ks]
        for k, p in zip(ks, pts):
            ctx.state((u, w, n_, k))
            inputs = {"line_point": u, "line_direction": w, "plane_normal": n_, "p": p}
            for rep, sc in (("plain", 1), ("scaled", -2)):
                r, e = ctx.call(lambda: L.perpendicular(G.Point(np.array(list(p) + [1], dtype=float) * sc), plane=G.Plane(E.array * sc)))
                ctx.trace()
                if e is not None or type(r) is not G.Line:
                    ctx.fail(f"line3d:perpendicular-in-plane:{rep}:{type(e).__name__ if e is not None else 'type'}", "perpendicular(p, plane=E)", inputs, "line", e if e is not None else type(r).__name__)
                    return
                if not judge(r.array, p, n_, rep, inputs):
                    return
        # the three points as a collection, one plane
        PC = G.PointCollection(np.array([list(p) + [1] for p in pts], dtype=float))
        r, e = ctx.call(lambda: L.perpendicular(PC, plane=E))
        ctx.trace(len(pts))
        if e is not None or r.array.shape != (len(pts), 4, 4):
            ctx.fail(f"line3d:perpendicular-in-plane:points-collection:{type(e).__name__ if e is not None else 'shape'}", "perpendicular(P, plane=E)", {"line_point": u, "line_direction": w, "plane_normal": n_}, "collection", e if e is not None else list(r.array.shape))
            return
        for i, p in enumerate(pts):
            if not judge(r.array[i], p, n_, "points-collection", {"line_point": u, "line_direction": w, "plane_normal": n_, "p": p, "position": i}):
                return
    # everything as collections: position i pairs the line with plane i and point i; odd positions get a point OFF the line
    # (there the plane is irrelevant and the perpendicular is the one through the foot)
    k = len(normals)
    LC = G.LineCollection(np.array([L.array] * k))
    EC = G.PlaneCollection(np.array([list(n_) + [-sum(a * b for a, b in zip(n_, u))] for n_ in normals], dtype=float))
    qs = []
    for i, n_ in enumerate(normals):
        base = [a + (i - 1) * b for a, b in zip(u, w)]
        qs.append(tuple(base) if i % 2 == 0 else tuple(a + b for a, b in zip(base, n_)))
    QC = G.PointCollection(np.array([list(q) + [1] for q in qs], dtype=float))
    r, e = ctx.call(lambda: LC.perpendicular(QC, plane=EC))
    ctx.trace(k)
    inputs = {"line_point": u, "line_direction": w, "plane_normals": normals, "points": qs}
    if e is not None or r.array.shape != (k, 4, 4):
        ctx.fail(f"line3d:perpendicular-in-plane:all-collections:{type(e).__name__ if e is not None else 'shape'}", "LC.perpendicular(PC, plane=EC)", inputs, "collection", e if e is not None else list(r.array.shape))
        return
    for i, (n_, q) in enumerate(zip(normals, qs)):
        if i % 2 == 0:
            if not judge(r.array[i], q, n_, "all-collections:on", {**inputs, "position": i}):
                return
        else:
            d = line_direction(r.array[i])
            foot = [a - b for a, b in zip(q, n_)]
            if not (on_line3(r.array[i], fl(list(q) + [1])) and on_line3(r.array[i], fl(foot + [1])) and abs(np.dot(d[:3], fl(w))) <= 1e-7 * np.linalg.norm(d) * math.sqrt(ww)):
                ctx.fail("line3d:perpendicular-in-plane:all-collections:off", "LC.perpendicular(PC, plane=EC)", {**inputs, "position": i}, "perpendicular through q and its foot", r.array[i])
                return


# ---------------------------------------------------------------------------------------------------
# predicates


def enum_pred(tier, seed):
    yield ("is_perpendicular:lines2d",)
    yield ("is_perpendicular:planes",)
    yield ("is_perpendicular:lines3d",)
    yield ("is_parallel:lines2d",)
    yield ("is_parallel:planes",)
    for a in aff(2, 1):
        yield ("is_cocircular", a)
    for a in aff(2, 1):
        yield ("is_collinear", a)
    for a in aff(3, 1)[:: (1 if tier == "thorough" else 3)]:
        yield ("is_coplanar", a)
    for h in [x for x in lattice(3, 1) if next(v for v in x if v) > 0]:
        yield ("is_concurrent", h)
    yield ("more-than-n-arguments",)


@family("C10", "predicates", enum_pred)
def case_pred(ctx, cfg):
    import geometer as G

    kind = cfg[0]
    ctx.state(tuple(cfg))
    if kind in ("is_perpendicular:lines2d", "is_parallel:lines2d"):
        H = [h for h in lattice(3, 1) if any(h[:2])]
        # + pairs that are nearly (1e-3, 1e-4 rad) but not exactly parallel / perpendicular, and exactly so with large entries
        near = [((1000, 1, 0), (1000, 0, 3)), ((1000, 1, 0), (0, 1, 2)), ((1000, 1, 2), (-1, 1000, 0)), ((1000, 1, 2), (-1, 999, 0)), ((1000, 999, 0), (1000, 1000, 1)), ((10000, 1, 5), (1, 0, 0)), ((10000, 1, 5), (-1, 10000, 0)), ((1, 1, 0), (1000, -999, 4)), ((1, 1, 0), (-1000, 1000, 4)), ((3000, 4000, 1), (4000, -3000, 7)), ((3000, 4000, 1), (4001, -3000, 7)),
                # lines far from the origin (distance about 800) that meet at about half a degree, and parallel ones out there
                ((1, -2, 1800), (51, -100, 89500)), ((50, -100, 90000), (51, -100, 89500)), ((1, -2, 1800), (2, -4, 7)), ((1, -2, 1800), (-3, 6, 5500)), ((100, 1, -90000), (100, 2, -90000))]
        for h1, h2 in list(itertools.product(H, repeat=2)) + near + [(b, a) for a, b in near]:
            if X.irank([list(h1), list(h2)]) < 2:
                continue
            l, m = G.Line(np.array(h1, dtype=float)), G.Line(np.array(h2, dtype=float) * -2)
            if kind.startswith("is_perp"):
                want = h1[0] * h2[0] + h1[1] * h2[1] == 0
                r, e = ctx.call(G.is_perpendicular, l, m)
            else:
                want = h1[0] * h2[1] - h1[1] * h2[0] == 0
                r, e = ctx.call(l.is_parallel, m)
            ctx.trace()
            ctx.tally(f"{kind}:{want}")
            if e is not None or bool(r) != want:
                ctx.fail(kind, kind, {"l": h1, "m": h2}, want, e if e is not None else bool(r))
                return
        # lines far from the origin given through two points each (join normalises their coordinates, so the entries that
        # carry the direction are of size 1e-3): about half a degree apart, exactly parallel, exactly perpendicular
        far = [
            (((0, 900), (200, 1000)), ((0, -800), (200, -698)), False, False),
            (((0, 900), (200, 1000)), ((0, -800), (200, -700)), True, False),
            (((0, 900), (200, 1000)), ((500, -800), (400, -600)), False, True),
            (((900, 0), (901, 300)), ((-700, 10), (-700, 310)), False, False),
            (((900, 0), (900, 300)), ((-700, 10), (-700, 310)), True, False),
        ]
        for (p1, p2), (q1, q2), par, perp in far:
            for order in (0, 1):
                l = G.Line(G.Point(*p1), G.Point(*p2))
                m = G.Line(G.Point(*q1), G.Point(*q2))
                if order:
                    l, m = m, l
                want = perp if kind.startswith("is_perp") else par
                r, e = ctx.call(G.is_perpendicular, l, m) if kind.startswith("is_perp") else ctx.call(l.is_parallel, m)
                ctx.trace()
                if e is not None or bool(r) != want:
                    ctx.fail(kind + ":far-from-origin", kind, {"l": [p1, p2], "m": [q1, q2], "swapped": bool(order)}, want, e if e is not None else bool(r))
                    return
        # collections
        pairs = [(h1, h2) for h1, h2 in itertools.product(H, repeat=2) if X.irank([list(h1), list(h2)]) == 2]
        lc = G.LineCollection(np.array([p[0] for p in pairs], dtype=float))
        mc_ = G.LineCollection(np.array([p[1] for p in pairs], dtype=float))
        if kind.startswith("is_perp"):
            want = np.array([p[0][0] * p[1][0] + p[0][1] * p[1][1] == 0 for p in pairs])
            r, e = ctx.call(G.is_perpendicular, lc, mc_)
        else:
            want = np.array([p[0][0] * p[1][1] - p[0][1] * p[1][0] == 0 for p in pairs])
            r, e = ctx.call(lc.is_parallel, mc_)
        ctx.trace(len(pairs))
        if e is not None or not np.array_equal(np.asarray(r), want):
            ctx.fail(kind + ":collection", kind, {"pairs": len(pairs)}, "elementwise", e if e is not None else "mismatch")
        return
    if kind in ("is_perpendicular:planes", "is_parallel:planes"):
        N = [n for n in lattice(3, 1)]
        nearp = [((1000, 1, 0), (1000, 0, 0)), ((1000, 1, 0), (0, 0, 1)), ((1000, 1, 0), (-1, 1000, 0)), ((1000, 1, 0), (-1, 999, 5)), ((1, 1, 1000), (1, 1, 999)), ((1, 1, 1000), (1000, 0, -1)), ((1, 1, 1000), (1000, 1, -1)), ((2000, 2, 0), (1000, 1, 0)), ((3000, 0, 4000), (4000, 5, -3000)), ((1, -2, 0), (51, -100, 0)), ((1, -2, 0), (51, -100, 1)), ((1, -2, 0), (-2, 4, 0))]
        for n1, n2 in list(itertools.product(N, repeat=2)) + nearp + [(b, a) for a, b in nearp]:
            prop = X.irank([list(n1), list(n2)]) < 2
            for c1, c2 in ((0, 0), (1, -1), (180, 450)):
                e1, e2 = G.Plane(np.array(list(n1) + [c1], dtype=float)), G.Plane(np.array(list(n2) + [c2], dtype=float) * 3)
                if kind.startswith("is_perp"):
                    if prop:
                        continue
                    want = sum(a * b for a, b in zip(n1, n2)) == 0
                    r, e = ctx.call(G.is_perpendicular, e1, e2)
                else:
                    if prop and X.irank([list(n1) + [c1], list(n2) + [c2]]) < 2:
                        continue  # equal planes: meet is not defined
                    want = prop
                    r, e = ctx.call(e1.is_parallel, e2)
                ctx.trace()
                ctx.tally(f"{kind}:{want}")
                if e is not None or bool(r) != want:
                    ctx.fail(kind, kind, {"e": list(n1) + [c1], "f": list(n2) + [c2]}, want, e if e is not None else bool(r))
                    return
        return
    if kind == "is_perpendicular:lines3d":
        D = [d for d in lattice(3, 1)]
        neard = [((1000, 1, 0), (-1, 1000, 0)), ((1000, 1, 0), (-1, 999, 0)), ((1000, 1, 0), (0, 0, 1)), ((1, 1, 1000), (1000, 0, -1)), ((1, 1, 1000), (1000, 1, -1)), ((3000, 0, 4000), (4000, 5, -3000)), ((3000, 0, 4000), (4000, 0, -3001))]
        for o in [(0, 0, 0), (1, 2, -1)]:
            for d1, d2 in list(itertools.product(D, repeat=2)) + neard + [(b, a) for a, b in neard]:
                if X.irank([list(d1), list(d2)]) < 2:
                    continue
                l = G.Line(G.Point(*o), G.Point(np.array(list(d1) + [0], dtype=float)))
                m = G.Line(G.Point(*o), G.Point(np.array(list(d2) + [0], dtype=float)))
                want = sum(a * b for a, b in zip(d1, d2)) == 0
                r, e = ctx.call(G.is_perpendicular, l, m)
                ctx.trace()
                ctx.tally(f"{kind}:{want}")
                if e is not None or bool(r) != want:
                    ctx.fail(kind, kind, {"o": o, "d1": d1, "d2": d2}, want, e if e is not None else bool(r))
                    return
        return
    if kind == "is_cocircular":
        a = tuple(cfg[1])
        pts = [p for p in aff(2, 2) if p != a]
        for b, c in itertools.combinations(pts, 2):
            if (b[0] - a[0]) * (c[1] - a[1]) - (b[1] - a[1]) * (c[0] - a[0]) == 0:
                continue
            rows, want = [], []
            for d in pts:
                if d in (b, c):
                    continue
                # three of the four collinear: excluded (the statement speaks of points on a circle)
                tri = [(a, b, d), (a, c, d), (b, c, d)]
                if any((q[0] - p[0]) * (r_[1] - p[1]) - (q[1] - p[1]) * (r_[0] - p[0]) == 0 for p, q, r_ in tri):
                    continue
                M = [[p[0] ** 2 + p[1] ** 2, p[0], p[1], 1] for p in (a, b, c, d)]
                want.append(X.det(X.mat(M)) == 0)
                rows.append(d)
            if not rows:
                continue
            A, B, C = (G.Point(*p) for p in (a, b, c))
            Dc = G.PointCollection(np.array([list(d) + [1] for d in rows], dtype=float))
            r, e = ctx.call(G.is_cocircular, A, B, C, Dc)
            ctx.trace(len(rows))
            ctx.tally("is_cocircular:True", sum(want))
            ctx.tally("is_cocircular:False", len(want) - sum(want))
            if e is not None or not np.array_equal(np.asarray(r), np.array(want)):
                j = None if e is not None else int(np.argwhere(np.asarray(r) != np.array(want))[0][0])
                ctx.fail("is_cocircular", kind, {"a": a, "b": b, "c": c, "d": None if j is None else rows[j]}, None if j is None else want[j], e if e is not None else bool(np.asarray(r)[j]))
                return
        return
    if kind == "is_collinear":
        a = tuple(cfg[1])
        pts = aff(2, 2)
        A = G.Point(np.array([2 * a[0], 2 * a[1], 2], dtype=float))
        pairs = [(b, c) for b, c in itertools.product(pts, repeat=2) if b != a and c != a and b != c]
        Bc = G.PointCollection(np.array([list(b) + [1] for b, c in pairs], dtype=float))
        Cc = G.PointCollection(np.array([[-x for x in list(c) + [1]] for b, c in pairs], dtype=float))
        want = np.array([(b[0] - a[0]) * (c[1] - a[1]) - (b[1] - a[1]) * (c[0] - a[0]) == 0 for b, c in pairs])
        r, e = ctx.call(G.is_collinear, A, Bc, Cc)
        ctx.trace(len(pairs))
        ctx.tally("is_collinear:True", int(want.sum()))
        if e is not None or not np.array_equal(np.asarray(r), want):
            ctx.fail("is_collinear", kind, {"a": a}, "elementwise", e if e is not None else "mismatch")
            return
        for (b, c), w_ in list(zip(pairs, want))[:40]:
            r, e = ctx.call(G.is_collinear, A, G.Point(*b), G.Point(*c))
            if e is not None or bool(r) != bool(w_):
                ctx.fail("is_collinear:single", kind, {"a": a, "b": b, "c": c}, bool(w_), e if e is not None else bool(r))
                return
        return
    if kind == "is_coplanar":
        a = tuple(cfg[1])
        pts = aff(3, 1)
        A = G.Point(*a)
        for b in pts[::2]:
            if b == a:
                continue
            B = G.Point(*b)
            pairs = [(c, d) for c, d in itertools.product(pts, repeat=2)]
            Cc = G.PointCollection(np.array([list(c) + [1] for c, d in pairs], dtype=float))
            Dc = G.PointCollection(np.array([list(d) + [1] for c, d in pairs], dtype=float))
            want = np.array([X.idet4([list(a) + [1], list(b) + [1], list(c) + [1], list(d) + [1]]) == 0 for c, d in pairs])
            r, e = ctx.call(G.is_coplanar, A, B, Cc, Dc)
            ctx.trace(len(pairs))
            ctx.tally("is_coplanar:True", int(want.sum()))
            ctx.tally("is_coplanar:False", int((~want).sum()))
            if e is not None or not np.array_equal(np.asarray(r), want):
                ctx.fail("is_coplanar", kind, {"a": a, "b": b}, "elementwise", e if e is not None else "mismatch")
                return
        return
    if kind == "is_concurrent":
        h = tuple(cfg[1])
        H = [x for x in lattice(3, 1)]
        l = G.Line(np.array(h, dtype=float))
        pairs = [(m, n) for m, n in itertools.product(H, repeat=2)]
        Mc = G.LineCollection(np.array([m for m, n in pairs], dtype=float))
        Nc = G.LineCollection(np.array([n for m, n in pairs], dtype=float))
        want = np.array([X.det(X.mat([h, m, n])) == 0 for m, n in pairs])
        r, e = ctx.call(G.is_concurrent, l, Mc, Nc)
        ctx.trace(len(pairs))
        ctx.tally("is_concurrent:True", int(want.sum()))
        if e is not None or not np.array_equal(np.asarray(r), want):
            ctx.fail("is_concurrent", kind, {"l": h}, "elementwise", e if e is not None else "mismatch")
        return
    if kind == "more-than-n-arguments":
        # 4 and 5 points in the plane, 5 and 6 points in space; single objects and collections with mixed outcomes
        pts = aff(2, 1)
        tuples = [t for t in itertools.product(pts, repeat=4) if len(set(t[:2])) == 2]  # includes repeated points
        cols = [G.PointCollection(np.array([list(t[k]) + [1] for t in tuples], dtype=float)) for k in range(4)]

        def coll(t):
            return all((t[1][0] - t[0][0]) * (p[1] - t[0][1]) - (t[1][1] - t[0][1]) * (p[0] - t[0][0]) == 0 for p in t[2:])

        want = np.array([coll(t) for t in tuples])
        r, e = ctx.call(G.is_collinear, *cols)
        ctx.trace(len(tuples))
        ctx.tally("4-points:True", int(want.sum()))
        if e is not None or not np.array_equal(np.asarray(r), want):
            j = None if e is not None else int(np.argwhere(np.asarray(r) != want)[0][0])
            ctx.fail("is_collinear:4-points:collection", "is_collinear", {"points": None if j is None else tuples[j]}, None if j is None else bool(want[j]), e if e is not None else bool(np.asarray(r)[j]))
            return
        for t, w_ in list(zip(tuples, want))[:200]:
            r, e = ctx.call(G.is_collinear, *[G.Point(*p) for p in t])
            if e is not None or bool(r) != bool(w_):
                ctx.fail("is_collinear:4-points:single", "is_collinear", {"points": t}, bool(w_), e if e is not None else bool(r))
                return
        # five points: last two decide
        t5 = [((0, 0), (1, 1), (2, 2), p, q) for p in pts for q in pts]
        cols = [G.PointCollection(np.array([list(t[k]) + [1] for t in t5], dtype=float)) for k in range(5)]
        want = np.array([coll(t) for t in t5])
        r, e = ctx.call(G.is_collinear, *cols)
        if e is not None or not np.array_equal(np.asarray(r), want):
            j = None if e is not None else int(np.argwhere(np.asarray(r) != want)[0][0])
            ctx.fail("is_collinear:5-points:collection", "is_collinear", {"points": None if j is None else t5[j]}, None if j is None else bool(want[j]), e if e is not None else bool(np.asarray(r)[j]))
            return
        # 3D: five points
        p3 = aff(3, 1)[::2]
        t5 = [((0, 0, 0), (1, 0, 0), (0, 1, 0), p, q) for p in p3 for q in p3]
        cols = [G.PointCollection(np.array([list(t[k]) + [1] for t in t5], dtype=float)) for k in range(5)]
        want = np.array([t[3][2] == 0 and t[4][2] == 0 for t in t5])
        r, e = ctx.call(G.is_coplanar, *cols)
        if e is not None or not np.array_equal(np.asarray(r), want):
            j = None if e is not None else int(np.argwhere(np.asarray(r) != want)[0][0])
            ctx.fail("is_coplanar:5-points:collection", "is_coplanar", {"points": None if j is None else t5[j]}, None if j is None else bool(want[j]), e if e is not None else bool(np.asarray(r)[j]))
            return
        # four lines through a point
        H = lattice(3, 1)
        t4 = [((1, 0, 0), (0, 1, 0), m, n) for m in H for n in H]
        cols = [G.LineCollection(np.array([t[k] for t in t4], dtype=float)) for k in range(4)]
        want = np.array([t[2][2] == 0 and t[3][2] == 0 for t in t4])
        r, e = ctx.call(G.is_concurrent, *cols)
        if e is not None or not np.array_equal(np.asarray(r), want):
            j = None if e is not None else int(np.argwhere(np.asarray(r) != want)[0][0])
            ctx.fail("is_concurrent:4-lines:collection", "is_concurrent", {"lines": None if j is None else t4[j]}, None if j is None else bool(want[j]), e if e is not None else bool(np.asarray(r)[j]))


# ---------------------------------------------------------------------------------------------------
# angle bisectors


def enum_bis(tier, seed):
    for h in lattice(3, 1):
        if any(h[:2]):
            yield (2, h)
    for d in lattice(3, 1)[:: (1 if tier == "thorough" else 2)]:
        yield (3, d)


@family("C10", "angle_bisectors", enum_bis)
def case_bis(ctx, cfg):
    import geometer as G

    dim, h = cfg
    h = tuple(h)
    if dim == 2:
        for m_ in lattice(3, 1):
            if not any(m_[:2]) or h[0] * m_[1] - h[1] * m_[0] == 0:
                continue
            l, m = G.Line(np.array(h, dtype=float)), G.Line(np.array(m_, dtype=float) * 2)
            ctx.state((dim, h, m_))
            r, e = ctx.call(G.angle_bisectors, l, m)
            ctx.trace()
            v = fl(X.cross([F(x) for x in h], [F(x) for x in m_]))
            inputs = {"l": h, "m": m_}
            if e is not None or len(r) != 2:
                ctx.fail("angle_bisectors:2d:raises", "angle_bisectors", inputs, "two lines", e if e is not None else len(r))
                return
            b1, b2 = r
            dl, dm = np.array([h[1], -h[0]], float), np.array([m_[1], -m_[0]], float)
            ok = True
            dirs = []
            for b in (b1, b2):
                ba = np.real_if_close(b.array / np.max(np.abs(b.array)))
                if np.iscomplexobj(ba) and np.max(np.abs(ba.imag)) > 1e-9:
                    # a complex multiple of a real line is still that line
                    k = np.argmax(np.abs(b.array))
                    ba = np.real_if_close(b.array / b.array[k], tol=1e6)
                ok = ok and incident(ba, v, 1e-8)
                db = np.array([ba[1], -ba[0]]).real
                dirs.append(db)
                c1 = abs(db @ dl) / (np.linalg.norm(db) * np.linalg.norm(dl))
                c2 = abs(db @ dm) / (np.linalg.norm(db) * np.linalg.norm(dm))
                ok = ok and abs(c1 - c2) < 1e-8
            ok = ok and abs(dirs[0] @ dirs[1]) < 1e-8 * np.linalg.norm(dirs[0]) * np.linalg.norm(dirs[1])
            if not ok:
                ctx.fail("angle_bisectors:2d", "angle_bisectors", inputs, "two perpendicular lines through the vertex making equal angles", [b1.array, b2.array])
                return
    else:
        for o in [(0, 0, 0), (1, -1, 2)]:
            for d2 in lattice(3, 1):
                if X.irank([list(h), list(d2)]) < 2:
                    continue
                l = G.Line(G.Point(*o), G.Point(np.array(list(h) + [0], dtype=float)))
                m = G.Line(G.Point(*o), G.Point(np.array(list(d2) + [0], dtype=float)))
                ctx.state((dim, h, d2, o))
                r, e = ctx.call(G.angle_bisectors, l, m)
                ctx.trace()
                inputs = {"o": o, "d1": h, "d2": d2}
                if e is not None or len(r) != 2:
                    ctx.fail("angle_bisectors:3d:raises", "angle_bisectors", inputs, "two lines", e if e is not None else len(r))
                    return
                dirs = []
                ok = True
                for b in r:
                    ok = ok and on_line3(b.array, fl(list(o) + [1]), 1e-7)
                    db = np.real_if_close(line_direction(b.array)[:3], tol=1e8)
                    db = np.real(db / db[np.argmax(np.abs(db))])
                    dirs.append(db)
                    c1 = abs(db @ fl(h)) / (np.linalg.norm(db) * np.linalg.norm(fl(h)))
                    c2 = abs(db @ fl(d2)) / (np.linalg.norm(db) * np.linalg.norm(fl(d2)))
                    ok = ok and abs(c1 - c2) < 1e-7
                    # in the plane of the two lines
                    nrm = np.cross(fl(h), fl(d2))
                    ok = ok and abs(db @ nrm) < 1e-7 * np.linalg.norm(db) * np.linalg.norm(nrm)
                ok = ok and abs(dirs[0] @ dirs[1]) < 1e-7 * np.linalg.norm(dirs[0]) * np.linalg.norm(dirs[1])
                if not ok:
                    ctx.fail("angle_bisectors:3d", "angle_bisectors", inputs, "two perpendicular lines through the vertex making equal angles", [b.array for b in r])
                    return


# ---------------------------------------------------------------------------------------------------
# base_point, direction, basis_matrix, general_point


def enum_props(tier, seed):
    deep = tier == "thorough"
    for h in lattice(3, 3 if deep else 2):
        yield ("line2d", h)
    for h in lattice(4, 2 if deep else 1):
        yield ("plane", h)
    dirs = [v for v in lattice(3, 2 if deep else 1) if next(x for x in v if x) > 0]
    for u in aff(3, 1)[:: (1 if tier == "thorough" else 4)]:
        for w in dirs:
            yield ("line3d", (u, w))
    yield ("line3d_at_infinity", 0)
    yield ("collections", 0)
    # every line through a point of {-3..3}^3 (quick: {-2..2}^3) with a direction of {-2..2}^3, as slices of one collection
    k = 3 if deep else 2
    for x in range(-k, k + 1):
        yield ("collections3d", (k, x))


def check_line2d_props(ctx, G, L, h, tag):
    hv = fl(h)
    finite = any(h[:2])
    inputs = {"line": h, "history": tag}
    bp, e = ctx.call(lambda: L.base_point)
    ctx.trace()
    if e is not None or not incident(hv, bp.array, 1e-9) or not np.any(bp.array) or (finite and abs(bp.array[2]) < 1e-9 * np.linalg.norm(bp.array)):
        ctx.fail(f"base_point:2d{':' + tag if tag else ''}", "base_point", inputs, "finite point on the line", e if e is not None else bp.array)
        return False
    if finite:
        d, e = ctx.call(lambda: L.direction)
        ctx.trace()
        if e is not None or not incident(hv, d.array, 1e-9) or not np.any(d.array) or abs(d.array[2]) > 1e-12:
            ctx.fail(f"direction:2d{':' + tag if tag else ''}", "direction", inputs, "point at infinity on the line", e if e is not None else d.array)
            return False
    B, e = ctx.call(lambda: L.basis_matrix)
    ctx.trace()
    if e is not None or B.shape != (2, 3) or not np.allclose(B @ B.conj().T, np.eye(2), atol=1e-9) or not np.allclose(B @ hv, 0, atol=1e-9):
        ctx.fail(f"basis_matrix:2d{':' + tag if tag else ''}", "basis_matrix", inputs, "orthonormal rows spanning the line", e if e is not None else B)
        return False
    gp, e = ctx.call(lambda: L.general_point)
    ctx.trace()
    if e is not None or incident(hv, gp.array, 1e-9) or not np.any(gp.array):
        ctx.fail(f"general_point:2d{':' + tag if tag else ''}", "general_point", inputs, "a point off the line", e if e is not None else gp.array)
        return False
    return True


@family("C10", "subspace_properties", enum_props)
def case_props(ctx, cfg):
    import geometer as G

    kind, data = cfg
    ctx.state((kind, tuple(data) if isinstance(data, (list, tuple)) else data))
    if kind == "line2d":
        h = tuple(data)
        for dt in (np.int64, float):
            L = G.Line(np.array(h, dtype=dt))
            if not check_line2d_props(ctx, G, L, h, ""):
                return
        # derived objects: a line obtained from another one whose properties were already read
        L = G.Line(np.array(h, dtype=float))
        _ = (L.base_point, L.direction if any(h[:2]) else None, L.basis_matrix)
        for g in ("trans", "rot345", "proj"):
            M = XF.gens(2)[g]
            L2 = G.Transformation(XF.mat_np(M)) * L
            h2 = X.matvec(X.transpose(X.inv(M)), [F(x) for x in h])
            h2i = [int(x * 5 * 7) if (x * 35).denominator == 1 else float(x) for x in h2]
            hh = tuple(float(x) for x in h2)
            if not _derived_ok(ctx, G, L2, hh, f"after-reading-properties-then-{g}"):
                return
        Lc = L.copy()
        Lc.array = np.array([h[1], h[0], h[2] + 1], dtype=float) if any((h[1], h[0])) else np.array([1.0, 2.0, 3.0])
        if not _derived_ok(ctx, G, Lc, tuple(float(x) for x in Lc.array), "copy-with-new-array"):
            return
        return
    if kind == "plane":
        h = tuple(data)
        E = G.Plane(np.array(h, dtype=float))
        hv = fl(h)
        B, e = ctx.call(lambda: E.basis_matrix)
        ctx.trace()
        if e is not None or B.shape != (3, 4) or not np.allclose(B @ B.conj().T, np.eye(3), atol=1e-9) or not np.allclose(B @ hv, 0, atol=1e-9):
            ctx.fail("basis_matrix:plane", "basis_matrix", {"plane": h}, "orthonormal rows spanning the plane", e if e is not None else B)
            return
        gp, e = ctx.call(lambda: E.general_point)
        ctx.trace()
        if e is not None or incident(hv, gp.array, 1e-9) or not np.any(gp.array):
            ctx.fail("general_point:plane", "general_point", {"plane": h}, "a point off the plane", e if e is not None else gp.array)
        return
    if kind in ("line3d", "line3d_at_infinity"):
        if kind == "line3d":
            u, w = data
            pts = [list(u) + [1], list(w) + [0]]
        else:
            pts = [[1, 0, 0, 0], [0, 1, 1, 0]]
        L = G.Line(G.Point(np.array(pts[0], dtype=float)), G.Point(np.array(pts[1], dtype=float)))
        inputs = {"points": pts}
        bp, e = ctx.call(lambda: L.base_point)
        ctx.trace()
        if e is not None or not on_line3(L.array, bp.array) or (kind == "line3d" and abs(bp.array[3]) < 1e-9 * np.linalg.norm(bp.array)):
            ctx.fail("base_point:3d", "base_point", inputs, "finite point on the line", e if e is not None else bp.array)
            return
        if kind == "line3d":
            d, e = ctx.call(lambda: L.direction)
            ctx.trace()
            if e is not None or not proj_eq(d.array, fl(pts[1]), 1e-9):
                ctx.fail("direction:3d", "direction", inputs, pts[1], e if e is not None else d.array)
                return
        B, e = ctx.call(lambda: L.basis_matrix)
        ctx.trace()
        if e is not None or B.shape != (2, 4) or not np.allclose(B @ B.conj().T, np.eye(2), atol=1e-9) or not all(on_line3(L.array, B[i]) for i in range(2)):
            ctx.fail("basis_matrix:3d", "basis_matrix", inputs, "orthonormal rows spanning the line", e if e is not None else B)
            return
        gp, e = ctx.call(lambda: L.general_point)
        ctx.trace()
        if e is not None or on_line3(L.array, gp.array) or not np.any(gp.array):
            ctx.fail("general_point:3d", "general_point", inputs, "a point off the line", e if e is not None else gp.array)
        return
    if kind == "collections3d":
        from mc.compare import proj_eq_batch

        k, x0 = data
        dirs = [v for v in lattice(3, 2) if next(x for x in v if x) > 0]
        bases = [(x0, y, z) for y in range(-k, k + 1) for z in range(-k, k + 1)]
        A = np.array([list(u) + [1] for u in bases for w in dirs], dtype=float)
        D = np.array([list(w) + [0] for u in bases for w in dirs], dtype=float)
        LC = G.LineCollection(G.PointCollection(A), G.PointCollection(D))
        bp, e = ctx.call(lambda: LC.base_point)
        d, e2 = ctx.call(lambda: LC.direction)
        ctx.trace(2 * len(A))
        if e or e2:
            ctx.fail("properties:linecollection3d:raises", "base_point/direction", {"base_x": x0}, "arrays", e or e2)
            return
        M = np.asarray(LC.array)
        b = np.asarray(bp.array)
        nb = np.linalg.norm(b, axis=-1)
        on = np.linalg.norm(np.einsum("ni,nij->nj", b, M), axis=-1) <= 1e-8 * np.linalg.norm(M, axis=(-1, -2)) * nb
        fin = np.abs(b[:, 3]) > 1e-9 * nb
        # Cartesian: the base point is a + t*w for some t (finite, on the line)
        okd = proj_eq_batch(d.array, D, 1e-9)
        bad = np.argwhere(~(on & fin & (nb > 0)))
        if len(bad):
            i = int(bad[0][0])
            ctx.fail("base_point:linecollection3d", "base_point", {"through": A[i][:3], "direction": D[i][:3], "position": i}, "finite point on the line", b[i])
            return
        bad = np.argwhere(~okd)
        if len(bad):
            i = int(bad[0][0])
            ctx.fail("direction:linecollection3d", "direction", {"through": A[i][:3], "direction": D[i][:3], "position": i}, D[i], d.array[i])
            return
        # every tenth line also as a single object (same answers as the collection)
        for i in range(0, len(A), 10):
            L = G.Line(G.Point(A[i]), G.Point(D[i]))
            b1, e = ctx.call(lambda: L.base_point)
            ctx.trace()
            if e is not None or not on_line3(L.array, b1.array) or abs(b1.array[3]) < 1e-9 * np.linalg.norm(b1.array):
                ctx.fail("base_point:3d", "base_point", {"points": [A[i], D[i]]}, "finite point on the line", e if e is not None else b1.array)
                return
        return
    if kind == "collections":
        H = np.array(lattice(3, 2), dtype=float)
        LC = G.LineCollection(H)
        bp, e = ctx.call(lambda: LC.base_point)
        d, e2 = ctx.call(lambda: LC.direction)
        B, e3 = ctx.call(lambda: LC.basis_matrix)
        gp, e4 = ctx.call(lambda: LC.general_point)
        ctx.trace(4 * len(H))
        if e or e2 or e3 or e4:
            ctx.fail("properties:linecollection:raises", "base_point/direction/basis_matrix/general_point", {"lines": "all of {-2..2}^3"}, "arrays", e or e2 or e3 or e4)
            return
        for i, h in enumerate(H):
            fin = np.any(h[:2])
            ok_bp = incident(h, bp.array[i], 1e-9) and np.any(bp.array[i]) and (not fin or abs(bp.array[i][2]) > 1e-9)
            ok_d = (not fin) or (incident(h, d.array[i], 1e-9) and np.any(d.array[i]) and abs(d.array[i][2]) < 1e-12)
            ok_B = np.allclose(B[i] @ B[i].conj().T, np.eye(2), atol=1e-9) and np.allclose(B[i] @ h, 0, atol=1e-9)
            ok_gp = not incident(h, gp.array[i], 1e-9) and np.any(gp.array[i])
            for nm, ok in (("base_point", ok_bp), ("direction", ok_d), ("basis_matrix", ok_B), ("general_point", ok_gp)):
                if not ok:
                    ctx.fail(f"{nm}:linecollection", nm, {"line": h, "position": i}, "see property", {"base_point": bp.array[i], "direction": d.array[i], "general_point": gp.array[i]}[nm] if nm != "basis_matrix" else B[i])
                    return
        PLs = np.array(lattice(4, 1), dtype=float)
        PC = G.PlaneCollection(PLs)
        B, e = ctx.call(lambda: PC.basis_matrix)
        gp, e2 = ctx.call(lambda: PC.general_point)
        if e or e2:
            ctx.fail("properties:planecollection:raises", "basis_matrix/general_point", {"planes": "all of {-1,0,1}^4"}, "arrays", e or e2)
            return
        for i, h in enumerate(PLs):
            if not (np.allclose(B[i] @ B[i].conj().T, np.eye(3), atol=1e-9) and np.allclose(B[i] @ h, 0, atol=1e-9)):
                ctx.fail("basis_matrix:planecollection", "basis_matrix", {"plane": h, "position": i}, "orthonormal basis", B[i])
                return
            if incident(h, gp.array[i], 1e-9) or not np.any(gp.array[i]):
                ctx.fail("general_point:planecollection", "general_point", {"plane": h, "position": i}, "a point off the plane", gp.array[i])
                return


def _derived_ok(ctx, G, L2, hh, tag):
    return check_line2d_props(ctx, G, L2, hh, tag)


# ---------------------------------------------------------------------------------------------------
# The optional `tol` of Subspace.contains and is_collinear / is_coplanar / is_concurrent is the acceptance threshold for the
# incidence value / the determinant. Lattice objects in dyadic representatives give exact values; a ladder of tolerances is
# judged except within a factor 2 of the exact value (margin rule).

TOLS10 = (None, 2.0 ** -30, 2.0 ** -12, 2.0 ** -4, 3.0)


def enum_tol10(tier, seed):
    for kind in ("line2.contains", "plane.contains", "is_collinear", "is_concurrent", "is_coplanar"):
        for s in (0, -5, -10) if tier == "quick" else (0, -3, -5, -8, -10, -13):
            for form in ("single", "collection") + (("single_extra", "collection_extra") if kind.startswith("is_") else ()):
                yield (kind, s, form)


@family("C10", "explicit_tolerance", enum_tol10)
def case_tol10(ctx, cfg):
    import geometer as G

    kind, s, form = cfg
    sc = 2.0 ** s
    ctx.state(cfg)
    if kind in ("line2.contains", "plane.contains"):
        n = 3 if kind == "line2.contains" else 4
        hs = [np.array(h, dtype=float) for h in ([(1, 2, -1), (0, 1, 0), (2, -1, 2)] if n == 3 else [(1, 0, 2, -1), (0, 0, 1, 0), (1, 1, 1, -2)])]
        pts = [np.array(v, dtype=float) * sc for v in lattice(n, 1)]
        for h in hs:
            S = G.Line(h) if n == 3 else G.Plane(h)
            vals = [float(h @ p) for p in pts]
            for tol in TOLS10:
                kw = {} if tol is None else {"tol": tol}
                if form == "single":
                    out = [ctx.call(lambda: S.contains(G.Point(p), **kw)) for p in pts]
                    e = next((x[1] for x in out if x[1] is not None), None)
                    got = None if e is not None else [bool(x[0]) for x in out]
                else:
                    r, e = ctx.call(lambda: S.contains(G.PointCollection(np.array(pts)), **kw))
                    got = None if e is not None else [bool(x) for x in np.atleast_1d(r)]
                ctx.trace(len(pts))
                if e is not None or len(got) != len(pts):
                    ctx.fail(f"tol:{kind}:raises", "contains", {"subspace": h, "tol": tol, "form": form}, "bools", e if e is not None else got)
                    return
                if not judge_tol(ctx, kind, form, tol, vals, got, lambda i: {"subspace": h, "p": pts[i]}):
                    return
        return
    n = 3 if kind in ("is_collinear", "is_concurrent") else 4
    fn = {"is_collinear": G.is_collinear, "is_concurrent": G.is_concurrent, "is_coplanar": G.is_coplanar}[kind]
    mk = (lambda a: G.Line(a)) if kind == "is_concurrent" else (lambda a: G.Point(a))
    mkc = (lambda a: G.LineCollection(a)) if kind == "is_concurrent" else (lambda a: G.PointCollection(a))
    fixed = [np.array(v, dtype=float) for v in ([(1, 0, 1), (0, 1, 1)] if n == 3 else [(1, 0, 0, 1), (0, 1, 0, 1), (0, 0, 1, 1)])]
    last = [np.array(v, dtype=float) * sc for v in lattice(n, 1)]
    vals = [float(np.linalg.det(np.array(fixed + [x]))) for x in last]
    vals = [round(v / sc) * sc for v in vals]  # integer determinant times the dyadic factor: exact
    # "_extra": one more argument on the span of the fixed ones in front of the varying one, so that the varying object is
    # judged by the loop over the arguments beyond the first n (value: the same determinant)
    head = fixed + ([np.sum(fixed, axis=0)] if form.endswith("_extra") else [])
    for tol in TOLS10:
        kw = {} if tol is None else {"tol": tol}
        if form.startswith("single"):
            out = [ctx.call(lambda: fn(*[mk(a) for a in head], mk(x), **kw)) for x in last]
            e = next((x[1] for x in out if x[1] is not None), None)
            got = None if e is not None else [bool(x[0]) for x in out]
        else:
            r, e = ctx.call(lambda: fn(*[mk(a) for a in head], mkc(np.array(last)), **kw))
            got = None if e is not None else [bool(x) for x in np.atleast_1d(r)]
        ctx.trace(len(last))
        if e is not None or len(got) != len(last):
            ctx.fail(f"tol:{kind}:raises", kind, {"tol": tol, "form": form}, "bools", e if e is not None else got)
            return
        if not judge_tol(ctx, kind, form, tol, vals, got, lambda i: {"fixed": fixed, "last": last[i]}):
            return


def judge_tol(ctx, kind, form, tol, vals, got, describe):
    t_eff = 1e-8 if tol is None else tol
    for i, (v, g) in enumerate(zip(vals, got)):
        if v != 0 and t_eff / 2 < abs(v) < t_eff * 2:
            ctx.skipped += 1
            continue
        want = abs(v) <= t_eff
        ctx.tally(f"{'inside' if want else 'outside'}-tolerance")
        if g != want:
            ctx.fail(f"tol:{kind}:{form}:{'default' if tol is None else 'explicit'}", kind, {**describe(i), "tol": tol, "value": v}, want, g)
            return False
    return True
