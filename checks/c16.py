"""C16: segment, polygon and triangle membership is the closed Cartesian point set."""
from __future__ import annotations

import itertools
from fractions import Fraction as F

import numpy as np

from checks import shapeslib as SL
from mc import exact as X
from mc.core import family, lattice


def fpt(v, w=1.0):
    return [float(x) * w for x in v] + [w]


def polygon_class(G, name, n):
    if n == 3:
        return [("Polygon", G.Polygon), ("Triangle", G.Triangle)]
    if n == 4:
        return [("Polygon", G.Polygon), ("Rectangle", G.Rectangle)]
    return [("Polygon", G.Polygon)]


def enum_poly2(tier, seed):
    for name, poly in SL.POLYGONS.items():
        for rname, v in SL.rotations(poly):
            yield (name, rname)


@family("C16", "polygon_2d", enum_poly2)
def case_poly2(ctx, cfg):
    import geometer as G

    name, rname = cfg
    poly = SL.POLYGONS[name]
    verts = dict(SL.rotations(poly))[rname]
    qs = SL.half_grid(poly)
    # + points 1/1024 off every boundary point of the grid (just inside / just outside / just beyond a vertex): far from the
    # library's 1e-8 tolerance, exactly representable, decided by the same exact oracle
    eps = F(1, 1024)
    qs = qs + [(q[0] + dx * eps, q[1] + dy * eps) for q in qs if SL.pip(poly, q) == "boundary" for dx, dy in ((1, 0), (-1, 0), (0, 1), (0, -1))]
    exact = np.array([SL.pip(poly, q) != "outside" for q in qs])
    for q in qs:
        ctx.tally(SL.position_class(poly, q))
    base = hash((name, rname))
    ctx.states.update(hash((base, i)) for i in range(len(qs)))
    ctx.nontrivial.update(hash((base, i)) for i in range(len(qs)))
    QC = G.PointCollection(np.array([fpt(q) for q in qs]))
    for cname, cls in polygon_class(G, name, len(verts)):
        for dt in (float, np.int64, "weighted"):
            if dt == "weighted":
                # the vertices in other homogeneous representatives (weights 2, -1, 3, 1/2 in turn)
                wts = [(2.0, -1.0, 3.0, 0.5)[i % 4] for i in range(len(verts))]
                P = cls(*[G.Point(np.array(list(v) + [1], dtype=float) * w) for v, w in zip(verts, wts)])
                inputs = {"polygon": name, "vertices": verts, "class": cname, "dtype": "float64", "vertex_weights": wts}
            else:
                P = cls(*[G.Point(np.array(list(v) + [1], dtype=dt)) for v in verts])
                inputs = {"polygon": name, "vertices": verts, "class": cname, "dtype": np.dtype(dt).name}
            r, e = ctx.call(P.contains, QC)
            ctx.trace(len(qs))
            if e is not None or np.shape(r) != exact.shape:
                ctx.fail(f"polygon2d:{cname}:collection:{type(e).__name__ if e is not None else 'shape'}", "contains", inputs, "boolean array", e if e is not None else list(np.shape(r)))
                break
            if not np.array_equal(np.asarray(r), exact):
                j = int(np.argwhere(np.asarray(r) != exact)[0][0])
                ctx.fail(f"polygon2d:{cname}:collection:{SL.position_class(poly, qs[j]).split('+')[0]}", "contains", {**inputs, "q": [str(x) for x in qs[j]]}, bool(exact[j]), bool(np.asarray(r)[j]))
                break
            # single points
            step = 1 if ctx.tier == "thorough" else 3
            bad = False
            for j in range(0, len(qs), step):
                r1, e = ctx.call(P.contains, G.Point(np.array(fpt(qs[j], (1, -2, 3)[j % 3]))))
                ctx.trace()
                if e is not None or bool(r1) != bool(exact[j]):
                    ctx.fail(f"polygon2d:{cname}:single:{SL.position_class(poly, qs[j]).split('+')[0]}" + (f":{type(e).__name__}" if e is not None else ""), "contains", {**inputs, "q": [str(x) for x in qs[j]]}, bool(exact[j]), e if e is not None else bool(r1))
                    bad = True
                    break
            if bad:
                break
            # points at infinity are never contained in a bounded polygon
            dirs = lattice(2, 1)
            IC = G.PointCollection(np.array([list(d) + [0] for d in dirs], dtype=float))
            r, e = ctx.call(P.contains, IC)
            if e is not None or np.any(r):
                ctx.fail(f"polygon2d:{cname}:point-at-infinity", "contains", {**inputs, "directions": dirs}, False, e if e is not None else np.asarray(r))
                break
            r, e = ctx.call(P.contains, G.Point(np.array([1.0, -1.0, 0.0])))
            if e is not None or bool(r):
                ctx.fail(f"polygon2d:{cname}:point-at-infinity:single", "contains", inputs, False, e if e is not None else bool(r))
                break
    # all rotations as one PolygonCollection against one point: every element must give the same (exact) answer
    rots = [v for _, v in SL.rotations(poly)]
    PCn = G.PolygonCollection(*[G.PointCollection(np.array([list(r[k]) + [1] for r in rots], dtype=float)) for k in range(len(poly))])
    for j in range(0, len(qs), 5):
        r, e = ctx.call(PCn.contains, G.Point(np.array(fpt(qs[j]))))
        ctx.trace(len(rots))
        if e is not None or not np.array_equal(np.asarray(r), np.full(len(rots), exact[j])):
            ctx.fail(f"polygon2d:PolygonCollection:{type(e).__name__ if e is not None else 'value'}", "contains", {"polygon": name, "q": [str(x) for x in qs[j]]}, bool(exact[j]), e if e is not None else np.asarray(r))
            break


# ---------------------------------------------------------------------------------------------------


def enum_poly3(tier, seed):
    for name, poly in SL.POLYGONS.items():
        for emb in SL.EMBEDDINGS:
            rots = SL.rotations(poly)
            for rname, v in (rots if tier == "thorough" else rots[:4]):
                yield (name, emb, rname)


@family("C16", "polygon_3d", enum_poly3)
def case_poly3(ctx, cfg):
    import geometer as G

    name, emb, rname = cfg
    poly = SL.POLYGONS[name]
    verts = dict(SL.rotations(poly))[rname]
    V3 = [SL.embed(emb, *v) for v in verts]
    nrm = SL.normal(emb)
    qs2 = SL.half_grid(poly)[:: (1 if ctx.tier == "thorough" else 2)]
    qs, exact, cls_ = [], [], []
    for q in qs2:
        b = SL.embed(emb, *q)
        for hgt in (0, 1, -2):
            qs.append(tuple(F(x) + hgt * y for x, y in zip(b, nrm)))
            exact.append(hgt == 0 and SL.pip(poly, q) != "outside")
            cls_.append(("in-plane:" + SL.position_class(poly, q).split("+")[0]) if hgt == 0 else "off-plane")
    exact = np.array(exact)
    for c in cls_:
        ctx.tally(c)
    base = hash(cfg)
    ctx.states.update(hash((base, i)) for i in range(len(qs)))
    ctx.nontrivial.update(hash((base, i)) for i in range(len(qs)))
    QC = G.PointCollection(np.array([fpt(q) for q in qs]))
    for cname, cls in polygon_class(G, name, len(verts)):
        P = cls(*[G.Point(np.array(list(v) + [1], dtype=float)) for v in V3])
        inputs = {"polygon": name, "embedding": emb, "vertices": V3, "class": cname}
        r, e = ctx.call(P.contains, QC)
        ctx.trace(len(qs))
        if e is not None or np.shape(r) != exact.shape:
            ctx.fail(f"polygon3d:{cname}:collection:{type(e).__name__ if e is not None else 'shape'}", "contains", inputs, "boolean array", e if e is not None else list(np.shape(r)))
            return
        if not np.array_equal(np.asarray(r), exact):
            j = int(np.argwhere(np.asarray(r) != exact)[0][0])
            ctx.fail(f"polygon3d:{cname}:collection:{cls_[j]}", "contains", {**inputs, "q": [str(x) for x in qs[j]]}, bool(exact[j]), bool(np.asarray(r)[j]))
            return
        for j in range(0, len(qs), 7 if ctx.tier == "quick" else 1):
            r1, e = ctx.call(P.contains, G.Point(np.array(fpt(qs[j]))))
            ctx.trace()
            if e is not None or bool(r1) != bool(exact[j]):
                ctx.fail(f"polygon3d:{cname}:single:{cls_[j]}" + (f":{type(e).__name__}" if e is not None else ""), "contains", {**inputs, "q": [str(x) for x in qs[j]]}, bool(exact[j]), e if e is not None else bool(r1))
                return
        # points at infinity (in and off the plane's direction)
        o, u, v = SL.EMBEDDINGS[emb]
        for d in (u, v, tuple(a + b for a, b in zip(u, v)), nrm):
            r, e = ctx.call(P.contains, G.Point(np.array(list(d) + [0], dtype=float)))
            if e is not None or bool(r):
                ctx.fail(f"polygon3d:{cname}:point-at-infinity", "contains", {**inputs, "direction": d}, False, e if e is not None else bool(r))
                return


# ---------------------------------------------------------------------------------------------------


def enum_segments(tier, seed):
    for a in itertools.product(range(-2, 3), repeat=2):
        yield (2, a)
    for a in itertools.product(range(-1, 2), repeat=3):
        yield (3, a)


@family("C16", "segments", enum_segments)
def case_segments(ctx, cfg):
    import geometer as G

    dim, a = cfg
    a = tuple(a)
    k = 2 if dim == 2 else 1
    ends = [b for b in itertools.product(range(-k, k + 1), repeat=dim) if b != a]
    half = [F(x, 2) for x in range(-2 * k - 1, 2 * k + 2)]
    qs = list(itertools.product(half, repeat=dim)) if dim == 2 else list(itertools.product(half[1:-1], repeat=3))
    QC = G.PointCollection(np.array([fpt(q) for q in qs]))
    for bi, b in enumerate(ends):
        exact = np.array([SL.on_segment(q, a, b) for q in qs])
        ctx.state((dim, a, b))
        ctx.tally("points-on-segment", int(exact.sum()))
        ctx.tally("points-off-segment", int((~exact).sum()))
        wa, wb = (1, 2, -1)[bi % 3], (1, -3)[bi % 2]
        S = G.Segment(G.Point(np.array(fpt(a, wa))), G.Point(np.array(fpt(b, wb))))
        inputs = {"a": a, "b": b, "weights": [wa, wb]}
        r, e = ctx.call(S.contains, QC)
        ctx.trace(len(qs))
        if e is not None or not np.array_equal(np.asarray(r), exact):
            j = None if e is not None else int(np.argwhere(np.asarray(r) != exact)[0][0])
            ctx.fail(f"segment:{dim}d:collection", "contains", {**inputs, "q": None if j is None else [str(x) for x in qs[j]]}, None if j is None else bool(exact[j]), e if e is not None else bool(np.asarray(r)[j]))
            return
        for j in range(bi % 5, len(qs), 5):
            r1, e = ctx.call(S.contains, G.Point(np.array(fpt(qs[j], -2))))
            ctx.trace()
            if e is not None or bool(r1) != bool(exact[j]):
                ctx.fail(f"segment:{dim}d:single", "contains", {**inputs, "q": [str(x) for x in qs[j]]}, bool(exact[j]), e if e is not None else bool(r1))
                return
    # rays: second endpoint at infinity in every lattice direction
    for d in lattice(dim, 1):
        exact = []
        for q in qs:
            e_ = [F(x) - y for x, y in zip(q, a)]
            coll = all(d[i] * e_[j] - d[j] * e_[i] == 0 for i in range(dim) for j in range(i + 1, dim))
            exact.append(coll and sum(x * y for x, y in zip(d, e_)) >= 0)
        exact = np.array(exact)
        ctx.state((dim, a, "ray", d))
        ctx.tally("ray")
        for order in ("finite-first", "infinite-first"):
            A, B = G.Point(np.array(fpt(a))), G.Point(np.array(list(d) + [0], dtype=float))
            S = G.Segment(A, B) if order == "finite-first" else G.Segment(B, A)
            r, e = ctx.call(S.contains, QC)
            ctx.trace(len(qs))
            if e is not None or not np.array_equal(np.asarray(r), exact):
                j = None if e is not None else int(np.argwhere(np.asarray(r) != exact)[0][0])
                ctx.fail(f"ray:{dim}d:{order}", "contains", {"a": a, "direction": d, "q": None if j is None else [str(x) for x in qs[j]]}, None if j is None else bool(exact[j]), e if e is not None else bool(np.asarray(r)[j]))
                return
    # SegmentCollection: all segments from a, element-wise against one point each and against a single point
    SC = G.SegmentCollection(G.PointCollection(np.array([fpt(a)] * len(ends))), G.PointCollection(np.array([fpt(b) for b in ends])))
    for q in qs[:: (4 if ctx.tier == "quick" else 1)]:
        exact = np.array([SL.on_segment(q, a, b) for b in ends])
        r, e = ctx.call(SC.contains, G.Point(np.array(fpt(q))))
        ctx.trace(len(ends))
        if e is not None or not np.array_equal(np.asarray(r), exact):
            ctx.fail(f"segmentcollection:{dim}d:single-point", "contains", {"a": a, "q": [str(x) for x in q]}, exact, e if e is not None else np.asarray(r))
            return


# ---------------------------------------------------------------------------------------------------
# history: membership of a polygon / segment derived (transformed, copied) from one that was already queried


def enum_history(tier, seed):
    for name in ("square", "dart", "L", "triangle_ccw"):
        for emb in ("2d", "z=1", "generic"):
            yield (name, emb)


@family("C16", "membership_after_transformation", enum_history)
def case_history(ctx, cfg):
    import geometer as G

    name, emb = cfg
    poly = SL.POLYGONS[name]
    V = poly if emb == "2d" else [SL.embed(emb, *v) for v in poly]
    dim = len(V[0])
    qs2 = SL.half_grid(poly)
    Q = [q if emb == "2d" else SL.embed(emb, *q) for q in qs2]
    exact = np.array([SL.pip(poly, q) != "outside" for q in qs2])
    shift = (3, -2) if dim == 2 else (3, -2, 1)
    QC = G.PointCollection(np.array([fpt(q) for q in Q]))
    QCs = G.PointCollection(np.array([fpt([a + b for a, b in zip(q, shift)]) for q in Q]))
    t = G.translation(*shift)
    for cname, cls in polygon_class(G, name, len(V)):
        P0 = cls(*[G.Point(np.array(list(v) + [1], dtype=float)) for v in V])
        ctx.state((name, emb, cname))
        # queries first, then derive, then query the derived polygon
        r0, e0 = ctx.call(P0.contains, QC)
        _ = ctx.call(lambda: (P0.edges, P0.area, P0.vertices))
        for how, Pd, pts in (("transformed", t * P0, QCs), ("copied", P0.copy(), QC), ("shifted-by-point", P0 + G.Point(*shift), QCs)):
            r, e = ctx.call(Pd.contains, pts)
            ctx.trace(len(Q))
            if e is not None or not np.array_equal(np.asarray(r), exact):
                ctx.fail(f"polygon:{'2d' if dim == 2 else '3d'}:{cname}:contains-after-queries:{how}", "contains", {"polygon": name, "embedding": emb, "class": cname, "derived_by": how}, "membership in the derived polygon", e if e is not None else "stale")
                return
            r, e = ctx.call(lambda: Pd.contains(G.Point(np.array(pts.array[3]))))
            if e is not None or bool(r) != bool(exact[3]):
                ctx.fail(f"polygon:{'2d' if dim == 2 else '3d'}:{cname}:contains-after-queries:{how}:single", "contains", {"polygon": name, "embedding": emb, "derived_by": how}, bool(exact[3]), e if e is not None else bool(r))
                return
        # the original polygon is unaffected by the derivations
        r, e = ctx.call(P0.contains, QC)
        ctx.trace(len(Q))
        if e is not None or not np.array_equal(np.asarray(r), exact):
            ctx.fail(f"polygon:{'2d' if dim == 2 else '3d'}:{cname}:original-after-derivation", "contains", {"polygon": name, "embedding": emb, "class": cname}, "membership in the original polygon", e if e is not None else "changed")
            return
    # members taken out of / rearranged inside a PolygonCollection that has already answered queries: indexing, slicing,
    # masks, reordering and expand_dims must carry the vertices AND the supporting planes of the right members along
    poly_b = [(x + 3, y - 2) for x, y in poly]
    Vb = poly_b if emb == "2d" else [SL.embed(emb, *v) for v in poly_b]
    ex_m = [exact, np.array([SL.pip(poly_b, q) != "outside" for q in qs2])]
    mk_poly = lambda W: G.Polygon(*[G.Point(np.array(list(v) + [1], dtype=float)) for v in W])  # noqa: E731
    PC = G.PolygonCollection([mk_poly(V), mk_poly(Vb)])
    _ = ctx.call(PC.contains, G.Point(np.array(fpt(Q[0]))))
    _ = ctx.call(lambda: (PC.edges, PC.area, PC.vertices))
    derived = [
        ("pc itself (after edges / area / vertices were read)", lambda: PC, [0, 1]),
        ("pc.copy()", lambda: PC.copy(), [0, 1]),
        ("pc[0]", lambda: PC[0], [0]),
        ("pc[1]", lambda: PC[1], [1]),
        ("pc[-1]", lambda: PC[-1], [1]),
        ("pc[1:]", lambda: PC[1:], [1]),
        ("pc[::-1]", lambda: PC[::-1], [1, 0]),
        ("pc[[1, 0, 1]]", lambda: PC[[1, 0, 1]], [1, 0, 1]),
        ("pc[mask]", lambda: PC[np.array([False, True])], [1]),
        ("list(pc)[1]", lambda: list(PC)[1], [1]),
        ("pc.expand_dims(0)[0]", lambda: PC.expand_dims(0)[0], [0, 1]),
        ("pc.copy()[1]", lambda: PC.copy()[1], [1]),
    ]
    for how, mk, members in derived:
        D, e = ctx.call(mk)
        ctx.state((name, emb, "collection-member", how))
        if e is not None:
            ctx.fail(f"polygoncollection:{'2d' if dim == 2 else '3d'}:{how}:{type(e).__name__}", how, {"polygon": name, "embedding": emb}, "a polygon (collection)", e)
            return
        for j in range(0, len(Q), 5):
            r, e = ctx.call(D.contains, G.Point(np.array(fpt(Q[j]))))
            ctx.trace()
            want = np.array([bool(ex_m[m][j]) for m in members])
            got = None if e is not None else np.atleast_1d(np.asarray(r))
            if e is not None or got.shape != want.shape or not np.array_equal(got, want):
                ctx.fail(f"polygoncollection:{'2d' if dim == 2 else '3d'}:contains-after:{how}", "contains", {"polygon": name, "embedding": emb, "derived_by": how, "q": [str(x) for x in Q[j]]}, want, e if e is not None else got)
                return
    # query points that are RESULTS of other operations (their representatives are whatever the library produces)
    Pq = G.Polygon(*[G.Point(np.array(list(v) + [1], dtype=float)) for v in V])
    Tq = G.Triangle(*[G.Point(np.array(list(v) + [1], dtype=float)) for v in V[:3]]) if dim == 2 else None
    tri_exact = np.array([SL.pip(list(poly[:3]), q) != "outside" for q in qs2]) if dim == 2 and X.idet4([list(poly[0]) + [1], list(poly[1]) + [1], list(poly[2]) + [1]]) != 0 else None
    mirror_line = G.Line(1, -2, 3) if dim == 2 else None
    plane = G.Plane(1, -2, 2, 3) if dim == 3 else None
    tr = G.Transformation(np.array([[2.0, 1, 0], [0, 1, 1], [1, 1, 1]])) if dim == 2 else G.rotation(0.4, axis=G.Point(1, 2, 2))
    for j in range(0, len(Q), 3):
        q = G.Point(np.array(fpt(Q[j])))
        made = []
        if dim == 2:
            made.append(("mirror(mirror(q))", lambda: mirror_line.mirror(mirror_line.mirror(q))))
            made.append(("project onto a line through q", lambda: G.Line(q, G.Point(7, -3)).project(q)))
            made.append(("meet(join(q,a), join(q,b))", lambda: G.meet(G.join(q, G.Point(11, 5)), G.join(q, G.Point(-7, 13)))))
        else:
            made.append(("mirror(mirror(q))", lambda: plane.mirror(plane.mirror(q))))
            made.append(("meet(plane, plane, plane) through q", lambda: G.meet(G.join(q, G.Point(9, 1, 1), G.Point(1, 8, 2)), G.join(q, G.Point(-3, 5, 7), G.Point(2, 2, -9)), G.join(q, G.Point(4, -6, 1), G.Point(-5, -5, 3)))))
        made.append(("t.inverse()*(t*q)", lambda: tr.inverse() * (tr * q)))
        for how, mk in made:
            qq, e = ctx.call(mk)
            if e is not None:
                continue  # constructions that are degenerate for this particular q
            ctx.state((name, emb, "derived-query", j, how))
            for cname, obj, ex in (("Polygon", Pq, exact), ("Triangle", Tq, tri_exact)):
                if obj is None or ex is None:
                    continue
                r, e = ctx.call(obj.contains, qq)
                ctx.trace()
                if e is not None or bool(r) != bool(ex[j]):
                    cplx = "complex-representative" if np.iscomplexobj(qq.array) and np.any(np.abs(np.imag(qq.array)) > 1e-12) else "real-representative"
                    ctx.fail(f"{cname}:query-point-from:{how}:{cplx}", "contains", {"polygon": name, "embedding": emb, "q": [str(x) for x in Q[j]], "made_by": how, "representative": qq.array}, bool(ex[j]), e if e is not None else bool(r))
                    return
    a, b = V[0], V[1]
    S = G.Segment(G.Point(np.array(list(a) + [1.0])), G.Point(np.array(list(b) + [1.0])))
    ex = np.array([SL.on_segment(q, a, b) for q in Q])
    _ = ctx.call(S.contains, QC)
    for how, Sd, pts in (("transformed", t * S, QCs), ("copied", S.copy(), QC)):
        r, e = ctx.call(Sd.contains, pts)
        ctx.trace(len(Q))
        if e is not None or not np.array_equal(np.asarray(r), ex):
            ctx.fail(f"segment:contains-after-queries:{how}", "contains", {"a": a, "b": b, "derived_by": how}, "membership in the derived segment", e if e is not None else "stale")
            return
