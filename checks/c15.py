"""C15: degenerate quadrics split into their components; conics meet in (at most) 4 common points."""
from __future__ import annotations

import itertools
from fractions import Fraction as F

import numpy as np

from checks import joinmeet as JM
from checks.c14 import QUADRICS3, classify_conic, sym3
from mc import exact as X
from mc.compare import on_quadric, proj_eq
from mc.core import family, lattice


def unordered_pair_eq(got, want, tol=1e-8):
    (a, b), (g, h) = got, want
    return (proj_eq(a, g, tol) and proj_eq(b, h, tol)) or (proj_eq(a, h, tol) and proj_eq(b, g, tol))


def sign_pattern(g, h):
    s = lambda v: "".join("+" if x > 0 else "-" if x < 0 else "0" for x in v)  # noqa: E731
    return s(g) + "|" + s(h)


# ---------------------------------------------------------------------------------------------------


# lines given by explicit coefficients of size 10 .. 1000 that are not small integers (the determinant of the line pair is
# then rounding noise times the cube of the scale: the library has to normalise before it decides "degenerate")
BIG_LINES = [(12.5, -7.25, 33.1), (9.7, 14.4, -21.9), (100.0, 1.0, -37.0), (-250.5, 80.25, 3.0), (1000.0, 999.0, 1.0), (64.1, -0.3, 12.0), (0.0, 31.7, -45.2), (77.7, 0.0, 13.1)]


def enum_lines(tier, seed):
    L = lattice(3, 3 if tier == "thorough" else 2)
    for g in L:
        yield (g,)
    for i in range(len(BIG_LINES)):
        yield (("big", i),)


@family("C15", "from_lines", enum_lines)
def case_lines(ctx, cfg):
    import geometer as G

    (g,) = cfg
    g = tuple(g)
    if g[0] == "big":
        g = BIG_LINES[g[1]]
        for h in BIG_LINES + [(1.0, 2.0, 3.0), (0.0, 0.0, 1.0)]:
            if h == g:
                continue
            for a, b in ((g, h), (tuple(-x for x in g), tuple(2 * x for x in h))):
                ctx.state(("big", g, h, a[0] < 0))
                c, e = ctx.call(G.Conic.from_lines, G.Line(np.array(a)), G.Line(np.array(b)))
                deg, e2 = ctx.call(lambda: c.is_degenerate) if e is None else (None, e)
                comp, e3 = ctx.call(lambda: c.components) if e2 is None else (None, e2)
                ctx.trace(3)
                inputs = {"g": a, "h": b}
                if e3 is not None or not bool(deg) or len(comp) != 2 or not unordered_pair_eq((comp[0].array, comp[1].array), (np.array(g), np.array(h))):
                    ctx.fail(f"from_lines:large-coefficients:{type(e3).__name__ if e3 is not None else ('is_degenerate' if not bool(deg) else 'components')}", "from_lines / is_degenerate / components", inputs, [g, h], e3 if e3 is not None else [bool(deg)] + [x.array for x in comp])
                    return
        # two clearly different lines that are close to each other (through a common point with slopes 2^-13 apart, and
        # parallel at distance 2^-13): a pair, not a double line; each component is one of the two lines
        if g == BIG_LINES[0]:
            close_pairs = [((0.0, 1.0, 0.0), (-(2.0**-13), 1.0, -(2.0**-13))), ((0.0, 1.0, 0.0), (0.0, 1.0, -(2.0**-13))), ((1.0, 2.0, 3.0), (1.0 + 2.0**-12, 2.0, 3.0)), ((1.0, -1.0, 0.0), (1.0, -1.0, 2.0**-12))]
            for a, b in close_pairs:
                ctx.state(("close-pair", a, b))
                c, e = ctx.call(G.Conic.from_lines, G.Line(np.array(a)), G.Line(np.array(b)))
                comp, e3 = ctx.call(lambda: c.components) if e is None else (None, e)
                ctx.trace(2)
                ok = e3 is None and len(comp) == 2 and unordered_pair_eq((comp[0].array, comp[1].array), (np.array(a), np.array(b)), 1e-6) and not proj_eq(comp[0].array, comp[1].array, 1e-6)
                if not ok:
                    ctx.fail(f"from_lines:close-lines:{type(e3).__name__ if e3 is not None else 'components'}", "components", {"g": a, "h": b}, [a, b], e3 if e3 is not None else [x.array for x in comp])
                    return
        return
    M_PROJ = np.array([[2.0, 1, 0], [0, 1, 1], [1, 1, 1]])
    T_PROJ = G.Transformation(M_PROJ)
    MIT_PROJ = np.linalg.inv(M_PROJ).T
    L = lattice(3, 3 if (ctx.tier == "thorough" or max(map(abs, g)) > 2) else 2)
    rows = [h for h in L if X.irank([list(g), list(h)]) == 2]
    mats = []
    for h in rows:
        ctx.state((g, h))
        c, e = ctx.call(G.Conic.from_lines, G.Line(np.array(g, dtype=float)), G.Line(np.array(h, dtype=float)))
        ctx.trace()
        inputs = {"g": g, "h": h}
        want = np.outer(g, h) + np.outer(h, g)
        if e is not None or type(c) is not G.Conic or not proj_eq(c.array, want.astype(float), 1e-10):
            ctx.fail("from_lines:matrix", "from_lines", inputs, want, e if e is not None else c.array)
            return
        deg, e = ctx.call(lambda: c.is_degenerate)
        if e is not None or not bool(deg):
            ctx.fail("from_lines:is_degenerate", "is_degenerate", inputs, True, e if e is not None else bool(deg))
            return
        comp, e = ctx.call(lambda: c.components)
        ctx.trace()
        if e is not None or len(comp) != 2 or not all(type(x) is G.Line for x in comp) or not unordered_pair_eq((comp[0].array, comp[1].array), (np.array(g, float), np.array(h, float))):
            ctx.fail("from_lines:components", "components", inputs, [g, h], e if e is not None else [x.array for x in comp])
            return
        mats.append(c.array)
        # history: the conic has answered is_degenerate / components; its image under a projective map splits into the
        # images of the two lines (M^-T g, M^-T h), and the original still splits as before
        td, e = ctx.call(lambda: T_PROJ * c)
        comp2, e2 = ctx.call(lambda: td.components) if e is None else (None, e)
        ctx.trace()
        wg, wh = MIT_PROJ @ np.array(g, float), MIT_PROJ @ np.array(h, float)
        if e2 is not None or len(comp2) != 2 or not unordered_pair_eq((comp2[0].array, comp2[1].array), (wg, wh)):
            ctx.fail("from_lines:components-of-image-after-queries", "(t*c).components", inputs, [wg, wh], e2 if e2 is not None else [x.array for x in comp2])
            return
        comp3, e3 = ctx.call(lambda: c.components)
        if e3 is not None or not unordered_pair_eq((comp3[0].array, comp3[1].array), (np.array(g, float), np.array(h, float))):
            ctx.fail("from_lines:components:original-after-derivation", "components", inputs, [g, h], e3 if e3 is not None else [x.array for x in comp3])
            return
    # the same conics as one collection
    QC = G.QuadricCollection(np.array(mats))
    deg, e = ctx.call(lambda: QC.is_degenerate)
    comp, e2 = ctx.call(lambda: QC.components)
    ctx.trace(len(rows))
    if e is not None or e2 is not None or not np.all(deg) or len(comp) != 2:
        ctx.fail("from_lines:collection:raises", "components", {"g": g}, "two line collections", e or e2 or "not all degenerate")
        return
    for i, h in enumerate(rows):
        if not unordered_pair_eq((comp[0].array[i], comp[1].array[i]), (np.array(g, float), np.array(h, float))):
            ctx.fail("from_lines:collection:components", "components", {"g": g, "h": h, "position": i}, [g, h], [comp[0].array[i], comp[1].array[i]])
            return


# ---------------------------------------------------------------------------------------------------


def enum_planes(tier, seed):
    for e in lattice(4, 2) if tier == "thorough" else JM.proj_reps(JM.A3()):
        yield (e,)


@family("C15", "from_planes", enum_planes)
def case_planes(ctx, cfg):
    import geometer as G
    from geometer.exceptions import NotReducible

    (e_,) = cfg
    e_ = tuple(e_)
    rows = [f for f in (lattice(4, 2) if (ctx.tier == "thorough" or max(map(abs, e_)) > 1) else JM.A3()) if X.irank([list(e_), list(f)]) == 2]
    mats = []
    for f in rows:
        ctx.state((e_, f))
        ctx.tally("sign-pattern:" + ("same-signs" if all(a * b >= 0 for a, b in zip(e_, f)) else "mixed-signs"))
        q, ex = ctx.call(G.Quadric.from_planes, G.Plane(np.array(e_, dtype=float)), G.Plane(np.array(f, dtype=float)))
        ctx.trace()
        inputs = {"e": e_, "f": f}
        want = np.outer(e_, f) + np.outer(f, e_)
        if ex is not None or not proj_eq(q.array, want.astype(float), 1e-10):
            ctx.fail("from_planes:matrix", "from_planes", inputs, want, ex if ex is not None else q.array)
            return
        deg, ex = ctx.call(lambda: q.is_degenerate)
        if ex is not None or not bool(deg):
            ctx.fail("from_planes:is_degenerate", "is_degenerate", inputs, True, ex if ex is not None else bool(deg))
            return
        comp, ex = ctx.call(lambda: q.components)
        ctx.trace()
        if ex is not None or len(comp) != 2 or not all(type(x) is G.Plane for x in comp) or not unordered_pair_eq((comp[0].array, comp[1].array), (np.array(e_, float), np.array(f, float))):
            ctx.fail(f"from_planes:components:{type(ex).__name__ if ex is not None else 'value'}", "components", inputs, [e_, f], ex if ex is not None else [x.array for x in comp])
            return
        mats.append(q.array)
    QC = G.QuadricCollection(np.array(mats))
    comp, ex = ctx.call(lambda: QC.components)
    ctx.trace(len(rows))
    if ex is not None or len(comp) != 2:
        ctx.fail(f"from_planes:collection:{type(ex).__name__ if ex is not None else 'count'}", "components", {"e": e_}, "two plane collections", ex if ex is not None else len(comp))
        return
    for i, f in enumerate(rows):
        if not unordered_pair_eq((comp[0].array[i], comp[1].array[i]), (np.array(e_, float), np.array(f, float))):
            ctx.fail("from_planes:collection:components", "components", {"e": e_, "f": f, "position": i}, [e_, f], [comp[0].array[i], comp[1].array[i]])
            return


# ---------------------------------------------------------------------------------------------------


def enum_irreducible(tier, seed):
    yield ("conics",)
    yield ("quadrics",)


@family("C15", "not_reducible", enum_irreducible)
def case_irreducible(ctx, cfg):
    import geometer as G
    from geometer.exceptions import NotReducible

    (what,) = cfg
    if what == "conics":
        for k, A in enumerate(sym3()):
            cls = classify_conic(A)
            ctx.state((what, k))
            ctx.tally(cls)
            c = G.Conic(np.array(A, dtype=float))
            d, e = ctx.call(lambda: c.is_degenerate)
            ctx.trace()
            if e is not None or bool(d) != (cls != "nondegenerate"):
                ctx.fail("is_degenerate:conic", "is_degenerate", {"conic": A}, cls != "nondegenerate", e if e is not None else bool(d))
                return
        QC = G.QuadricCollection(np.array(sym3(), dtype=float))
        d, e = ctx.call(lambda: QC.is_degenerate)
        want = np.array([classify_conic(A) != "nondegenerate" for A in sym3()])
        if e is not None or not np.array_equal(np.asarray(d), want):
            ctx.fail("is_degenerate:collection", "is_degenerate", {"conics": "all"}, "exact det == 0", e if e is not None else "mismatch")
    else:
        for name, A in QUADRICS3:
            Ai = [list(r) for r in A]
            rk = X.irank(Ai)
            ctx.state((what, name))
            ctx.tally(f"rank{rk}")
            q = G.Quadric(np.array(A, dtype=float))
            d, e = ctx.call(lambda: q.is_degenerate)
            ctx.trace()
            if e is not None or bool(d) != (rk < 4):
                ctx.fail("is_degenerate:quadric", "is_degenerate", {"quadric": name}, rk < 4, e if e is not None else bool(d))
                return
            comp, e = ctx.call(lambda: q.components)
            ctx.trace()
            if rk >= 3:
                # irreducible (cone) or non-degenerate: must not be reported as a pair of planes
                if not isinstance(e, NotReducible):
                    ctx.fail(f"components:irreducible:{'no-raise' if e is None else type(e).__name__}", "components", {"quadric": name, "rank": rk}, "NotReducible", e if e is not None else [x.array for x in comp])
                    return
        # collections: a reducible member next to an irreducible one must not make the irreducible one "split"
        red = [(nm, A) for nm, A in QUADRICS3 if X.irank([list(r) for r in A]) == 2]
        irr = [(nm, A) for nm, A in QUADRICS3 if X.irank([list(r) for r in A]) >= 3]
        if len(red) >= 2:
            QC = G.QuadricCollection(np.array([A for _, A in red], dtype=float))
            comp, e = ctx.call(lambda: QC.components)
            ctx.trace(len(red))
            ok = e is None and len(comp) == 2
            if ok:
                for i, (_, A) in enumerate(red):
                    a, b = np.asarray(comp[0].array)[i], np.asarray(comp[1].array)[i]
                    if not proj_eq(np.outer(a, b) + np.outer(b, a), np.array(A, dtype=float), 1e-8):
                        ok = False
            if not ok:
                ctx.fail("components:collection-of-plane-pairs", "components", {"quadrics": [nm for nm, _ in red]}, "the plane pairs", e if e is not None else [x.array for x in comp])
                return
        for nm, A in irr:
            for pos in ("first", "last", "middle"):
                mats = [B for _, B in red[:2]]
                mats.insert({"first": 0, "last": len(mats), "middle": 1}[pos], A)
                QC = G.QuadricCollection(np.array(mats, dtype=float))
                comp, e = ctx.call(lambda: QC.components)
                ctx.trace()
                ctx.state((what, "mixed", nm, pos))
                if not isinstance(e, NotReducible):
                    ctx.fail(f"components:mixed-collection:{'no-raise' if e is None else type(e).__name__}", "components", {"irreducible_member": nm, "position": pos, "others": [n for n, _ in red[:2]]}, "NotReducible", e if e is not None else [x.array for x in comp])
                    return
        for k in range(5):
            from checks.c14 import class_quadric

            q, name = class_quadric(G, k)
            comp, e = ctx.call(lambda: q.components)
            ctx.state((what, name))
            if not isinstance(e, NotReducible):
                ctx.fail(f"components:irreducible:{name}", "components", {"quadric": name}, "NotReducible", e if e is not None else [x.array for x in comp])
                return


# ---------------------------------------------------------------------------------------------------
# conic x conic


GRID = [(x, y, 1) for x in (-1, 0, 1) for y in (-1, 0, 1)]


def frames():
    out = []
    for f in itertools.combinations(GRID, 4):
        if all(X.idet4([list(a), list(b), list(c)]) != 0 for a, b, c in itertools.combinations(f, 3)):
            out.append(f)
    return out


LAMBDAS = [F(-2), F(-1), F(1, 2), F(1), F(2), F(3)]


def line_through(p, q):
    return [int(x) for x in X.cross([F(x) for x in p], [F(x) for x in q])]


def pencil_member(f, lam):
    a, b, c, d = f
    l12, l34, l13, l24 = line_through(a, b), line_through(c, d), line_through(a, c), line_through(b, d)
    M1 = np.outer(l12, l34) + np.outer(l34, l12)
    M2 = np.outer(l13, l24) + np.outer(l24, l13)
    return (M1 * lam.denominator + M2 * lam.numerator).astype(np.int64)


def enum_pencils(tier, seed):
    for fi, f in enumerate(frames()):
        yield ("frame", fi)
    for fi in range(0, len(frames()), 2 if tier == "quick" else 1):
        yield ("tangent", fi)
    yield ("circles", 0)
    yield ("high-contact", 0)
    yield ("near-coincident-points", 0)


def judge_common(ctx, G, c1, c2, A1, A2, base, inputs, tagbase, max_pts=4, double=None, tol=1e-6):
    r, e = ctx.call(c1.intersect, c2)
    ctx.trace()
    d1 = "degenerate" if X.idet4(A1.tolist()) == 0 else "nondegenerate"
    d2 = "degenerate" if X.idet4(A2.tolist()) == 0 else "nondegenerate"
    tag = f"{tagbase}:self-{d1}:other-{d2}"
    ctx.tally(tag)
    if e is not None:
        ctx.fail(f"{tag}:{type(e).__name__}", "intersect", inputs, base, e)
        return False
    pts = [np.asarray(p.array) for p in r]
    if len(pts) > max_pts:
        ctx.fail(f"{tag}:too-many-points", "intersect", inputs, base, pts)
        return False
    for p in pts:
        if not (on_quadric(A1.astype(float), p, tol) and on_quadric(A2.astype(float), p, tol)):
            ctx.fail(f"{tag}:point-not-common", "intersect", inputs, base, pts)
            return False
    for b in base:
        if not any(proj_eq(p, np.array(b, dtype=float), 10 * tol) for p in pts):
            ctx.fail(f"{tag}:common-point-missing", "intersect", {**inputs, "missing": b}, base, pts)
            return False
    return True


@family("C15", "conic_conic", enum_pencils)
def case_pencils(ctx, cfg):
    import geometer as G

    kind, fi = cfg
    if kind == "frame":
        f = frames()[fi]
        members = {lam: pencil_member(f, lam) for lam in LAMBDAS}
        for l1, l2 in itertools.permutations(LAMBDAS, 2):
            A1, A2 = members[l1], members[l2]
            ctx.state((kind, fi, str(l1), str(l2)))
            c1, c2 = G.Conic(A1.astype(float)), G.Conic(A2.astype(float))
            if not judge_common(ctx, G, c1, c2, A1, A2, list(f), {"frame": f, "lambda": str(l1), "mu": str(l2), "self": A1, "other": A2}, "pencil"):
                return
        # the two degenerate generators of the pencil themselves
        a, b, c, d = f
        g1 = np.outer(line_through(a, b), line_through(c, d))
        g1 = (g1 + g1.T).astype(np.int64)
        g2 = np.outer(line_through(a, c), line_through(b, d))
        g2 = (g2 + g2.T).astype(np.int64)
        for A1, A2 in ((g1, members[F(1)]), (members[F(2)], g2), (g1, g2)):
            ctx.state((kind, fi, A1.tobytes(), A2.tobytes()))
            if not judge_common(ctx, G, G.Conic(A1.astype(float)), G.Conic(A2.astype(float)), A1, A2, list(f), {"frame": f, "self": A1, "other": A2}, "pencil-generators"):
                return
    elif kind == "tangent":
        # conics through a, b, c tangent at a to the line t: pencil spanned by t*l_bc and l_ab*l_ac
        f = frames()[fi]
        a, b, c, d = f
        t = line_through(a, d)  # a line through a (not through b, c by general position)
        M1 = np.outer(t, line_through(b, c))
        M1 = (M1 + M1.T).astype(np.int64)
        M2 = np.outer(line_through(a, b), line_through(a, c))
        M2 = (M2 + M2.T).astype(np.int64)
        mem = {lam: M1 * lam.denominator + M2 * lam.numerator for lam in LAMBDAS}
        for l1, l2 in itertools.permutations(LAMBDAS, 2):
            A1, A2 = mem[l1], mem[l2]
            ctx.state((kind, fi, str(l1), str(l2)))
            if not judge_common(ctx, G, G.Conic(A1.astype(float)), G.Conic(A2.astype(float)), A1, A2, [a, b, c], {"a_double": a, "b": b, "c": c, "lambda": str(l1), "mu": str(l2), "self": A1, "other": A2}, "tangent-pencil"):
                return
    elif kind == "near-coincident-points":
        # a conic against a pair of lines whose vertex lies about 1e-6 outside the conic: two of the four common points
        # are about 2e-6 apart - distinct by a factor 100 with respect to the library's tolerance, yet closer than 1e-5
        # relative to their coordinates
        e20, e22 = 2.0**-20, 2.0**-22
        cases = []
        for a2, b2 in ((1, 1), (4, 1), (1, 4)):
            for vx, vy, sl in ((1, 0, (1, -1)), (1, 0, (2, -1)), (-1, 0, (1, -1)), (0, 1, (1, -1))):
                V = (vx * (a2**0.5 + e20), 0.0) if vy == 0 else (0.0, vy * (b2**0.5 + e20))
                dirs = [(s_, 1.0) for s_ in sl] if vy == 0 else [(1.0, s_) for s_ in sl]
                cases.append((a2, b2, V, dirs))
        for px, py in ((3, 4), (-4, 3), (3, -4), (4, 3)):
            cases.append((25, 25, (px * (1 + e22), py * (1 + e22)), [(1.0, 0.0), (0.0, 1.0)]))
            cases.append((25, 25, (px * (1 + e22), py * (1 + e22)), [(1.0, 1.0), (1.0, -2.0)] if px * py > 0 else [(1.0, -1.0), (2.0, 1.0)]))
        for a2, b2, V, dirs in cases:
            V = np.array(V)
            A1 = np.diag([1.0 / a2, 1.0 / b2, -1.0])
            lines = [np.array([dv[1], -dv[0], -(dv[1] * V[0] - dv[0] * V[1])]) for dv in dirs]
            A2 = np.outer(lines[0], lines[1])
            A2 = A2 + A2.T
            base = []
            for dv in dirs:
                qa = dv[0] ** 2 / a2 + dv[1] ** 2 / b2
                qb = 2 * (V[0] * dv[0] / a2 + V[1] * dv[1] / b2)
                qc = V[0] ** 2 / a2 + V[1] ** 2 / b2 - 1
                disc = qb * qb - 4 * qa * qc
                assert disc > 0
                for sg in (1, -1):
                    t_ = (-qb + sg * disc**0.5) / (2 * qa)
                    base.append((V[0] + t_ * dv[0], V[1] + t_ * dv[1], 1.0))
            dmin = min(np.hypot(p[0] - q[0], p[1] - q[1]) for p, q in itertools.combinations(base, 2))
            assert 1e-7 < dmin < 2e-5, dmin
            ctx.state((kind, a2, b2, tuple(V), tuple(dirs)))
            ctx.tally("near-pair:on-axis" if 0.0 in V else "near-pair:generic-position")
            for x, y, tag in ((A1, A2, "conic,line-pair"), (A2, A1, "line-pair,conic")):
                c1, c2 = G.Conic(x), G.Conic(y)
                r, e = ctx.call(c1.intersect, c2)
                ctx.trace()
                inputs = {"conic": [a2, b2], "vertex": V, "directions": dirs, "order": tag}
                if e is not None:
                    ctx.fail(f"near-coincident:{type(e).__name__}", "intersect", inputs, base, e)
                    return
                pts = [np.asarray(p.array) for p in r]
                missing = [b for b in base if not any(proj_eq(p, np.array(b), 2e-8) for p in pts)]
                if missing or len(pts) > 4:
                    ctx.fail("near-coincident:common-point-missing", "intersect", {**inputs, "missing": missing}, base, pts)
                    return
    elif kind == "high-contact":
        # pairs with a single common point of multiplicity four (the cubic resolvent has a triple root), and of multiplicity three
        par = np.array([[2, 0, 0], [0, 0, -1], [0, -1, 0]], dtype=np.int64)  # x^2 = y
        circ = np.array([[1, 0, 0], [0, 1, 0], [0, 0, -1]], dtype=np.int64)  # x^2 + y^2 = 1
        dbl = np.array([[1, 0, -1], [0, 0, 0], [-1, 0, 1]], dtype=np.int64)  # (x - 1)^2
        pairs = [
            (par, np.array([[2, 0, 0], [0, -2, -1], [0, -1, 0]], dtype=np.int64), [(0, 0, 1)], "fourfold: x^2=y and x^2-y^2=y"),
            (circ, circ + 2 * dbl, [(1, 0, 1)], "fourfold: unit circle and circle + 2 (x-1)^2"),
            (circ, circ - 3 * dbl, [(1, 0, 1)], "fourfold: unit circle and circle - 3 (x-1)^2"),
            (par, par + np.array([[0, 0, 0], [0, 2, 0], [0, 0, 0]], dtype=np.int64), [(0, 0, 1)], "fourfold: x^2=y and x^2+y^2=y"),
        ]
        for A1, A2, base, what in pairs:
            for x, y, tag in ((A1, A2, "ab"), (A2, A1, "ba")):
                ctx.state((kind, what, tag))
                if not judge_common(ctx, G, G.Conic(x.astype(float)), G.Conic(y.astype(float)), x, y, base, {"pair": what, "order": tag, "self": x, "other": y}, "high-contact", tol=1e-3):  # a fourfold point is only determined to eps**(1/4)
                    return
    else:
        # lattice circles: (centre, r^2); common points computed exactly where rational, complex points I, J always common
        circles = [((0, 0), 25), ((6, 0), 25), ((0, 0), 1), ((3, 0), 4), ((0, 0), 4), ((5, 5), 25), ((8, 0), 9)]
        for (c1, r1), (c2, r2) in itertools.permutations(circles, 2):
            if c1 == c2:
                continue  # concentric circles only meet in I and J (double): not a pair in general position
            A1 = np.array([[1, 0, -c1[0]], [0, 1, -c1[1]], [-c1[0], -c1[1], c1[0] ** 2 + c1[1] ** 2 - r1]], dtype=np.int64)
            A2 = np.array([[1, 0, -c2[0]], [0, 1, -c2[1]], [-c2[0], -c2[1], c2[0] ** 2 + c2[1] ** 2 - r2]], dtype=np.int64)
            # radical line: 2 (c2 - c1).x + |c1|^2 - |c2|^2 - r1 + r2 = 0 ; intersect with circle 1 exactly when rational
            base = []
            dx, dy = c2[0] - c1[0], c2[1] - c1[1]
            k = F(c2[0] ** 2 + c2[1] ** 2 - c1[0] ** 2 - c1[1] ** 2 + r1 - r2, 2)
            # points x = c1 + s (dx,dy)/|d|^2 * ((k - c1.d)) + t (-dy, dx)
            dd = dx * dx + dy * dy
            s = (k - (c1[0] * dx + c1[1] * dy)) / dd
            h2 = F(r1) - s * s * dd
            if h2 >= 0:
                t2 = h2 / dd
                num, den = t2.numerator, t2.denominator
                import math

                if math.isqrt(num) ** 2 == num and math.isqrt(den) ** 2 == den:
                    tt = F(math.isqrt(num), math.isqrt(den))
                    for sg in ((1, -1) if tt != 0 else (1,)):
                        x = F(c1[0]) + s * dx - sg * tt * dy
                        y = F(c1[1]) + s * dy + sg * tt * dx
                        base.append((float(x), float(y), 1.0))
            ctx.state((kind, c1, r1, c2, r2))
            cc1 = G.Circle(G.Point(*c1), float(np.sqrt(r1)))
            cc2 = G.Circle(G.Point(*c2), float(np.sqrt(r2)))
            r, e = ctx.call(cc1.intersect, cc2)
            ctx.trace()
            inputs = {"circle1": [c1, r1], "circle2": [c2, r2]}
            touching = h2 == 0
            ctx.tally("circles:" + ("touching" if touching else "two-real-points" if h2 > 0 else "disjoint"))
            if e is not None:
                ctx.fail(f"circles:{type(e).__name__}", "intersect", inputs, base, e)
                return
            pts = [np.asarray(p.array) for p in r]
            if len(pts) > 4 or not all(on_quadric(A1.astype(float), p, 1e-6) and on_quadric(A2.astype(float), p, 1e-6) for p in pts):
                ctx.fail("circles:points-not-common-or-too-many", "intersect", inputs, base, pts)
                return
            allb = base + [(1j, 1, 0), (-1j, 1, 0)]
            for b in allb:
                if not any(proj_eq(p, np.array(b, dtype=complex), 1e-5) for p in pts):
                    ctx.fail("circles:common-point-missing", "intersect", {**inputs, "missing": [complex(x) for x in b]}, allb, pts)
                    return
