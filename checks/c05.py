"""C05: tensor diagrams equal the Einstein sum they denote (BFS over diagram-building programs against a
reference model stepped in lock-step); Levi-Civita / Kronecker delta entries equal their definitions."""
from __future__ import annotations

import itertools
from collections import deque

import numpy as np

from mc.core import family

# ---------------------------------------------------------------------------------------------------
# universe of tensor objects: (name, (n_free, cov, con), dimension, copy_of)


def universe(tier):
    U = [
        ("a", (0, 1, 0), 2, None),
        ("b", (0, 0, 1), 2, None),
        ("m", (0, 1, 1), 2, None),
        ("g", (0, 2, 0), 2, None),
        ("h", (0, 0, 2), 2, None),
        ("t", (0, 2, 1), 2, None),
        ("m3", (0, 1, 1), 3, None),
        ("c1", (1, 1, 0), 2, None),  # collection: free axis of length 3
        ("c2", (2, 0, 1), 2, None),  # collection: free axes (2, 3)
        ("m_copy", (0, 1, 1), 2, "m"),  # copy() twin sharing m's array: a distinct node
    ]
    if tier == "thorough":
        U += [("u", (0, 1, 2), 2, None), ("w", (0, 3, 0), 2, None)]
    return U


FREE_SHAPES = {1: (3,), 2: (2, 3)}


def make_objects(tier):
    """Real geometer tensors for the universe (fresh objects; integer entries, all distinct primes-ish)."""
    from geometer.base import Tensor

    objs = {}
    k = 0
    for name, (nf, cov, con), dim, copy_of in universe(tier):
        if copy_of:
            objs[name] = objs[copy_of].copy()
            continue
        shape = FREE_SHAPES.get(nf, ()) + (dim,) * (cov + con)
        size = int(np.prod(shape))
        vals = (np.arange(size) * 7 + 3 * k + 1) % 11 - 5  # small integers, fixed
        k += 1
        arr = vals.reshape(shape).astype(np.int64)
        objs[name] = Tensor(arr, covariant=list(range(cov)), tensor_rank=cov + con)
    return objs


# ---------------------------------------------------------------------------------------------------
# reference model


class Model:
    """Bookkeeping of a tensor diagram exactly as the statement describes it."""

    def __init__(self, sig):
        self.sig = sig  # name -> ((nf, cov, con), dim)
        self.nodes = []  # names in order of insertion
        self.unused = []  # per node: [list of unused covariant axes, list of unused contravariant axes]
        self.contr = []  # (source position, target position, source axis, target axis)

    def copy(self):
        m = Model(self.sig)
        m.nodes = list(self.nodes)
        m.unused = [[list(a), list(b)] for a, b in self.unused]
        m.contr = list(self.contr)
        return m

    def _add(self, name):
        (nf, cov, con), dim = self.sig[name]
        self.nodes.append(name)
        self.unused.append([list(range(nf, nf + cov)), list(range(nf + cov, nf + cov + con))])
        return len(self.nodes) - 1

    def add_node(self, name):
        self._add(name)
        return None

    def add_edge(self, s, t):
        """Returns None or 'error' (TensorComputationError predicted)."""
        si = self.nodes.index(s) if s in self.nodes else self._add(s)
        ti = self.nodes.index(t) if t in self.nodes else self._add(t)
        if not self.unused[si][0] or not self.unused[ti][1]:
            return "error-no-index"
        i = self.unused[si][0].pop(0)
        j = self.unused[ti][1].pop(0)
        if self.sig[s][1] != self.sig[t][1]:
            return "error"
        self.contr.append((si, ti, i, j))
        return None

    def key(self):
        return (tuple(self.nodes), tuple((tuple(a), tuple(b)) for a, b in self.unused), tuple(self.contr))


def reference_contract(model, arrays):
    """Independent evaluator: label every axis, merge labels along contractions (union-find), align collection
    axes from the right, multiply everything on the full label grid and sum the contracted labels."""
    labels = {}
    parent = {}

    def find(x):
        while parent[x] != x:
            parent[x] = parent[parent[x]]
            x = parent[x]
        return x

    nfree_max = 0
    for pos, name in enumerate(model.nodes):
        (nf, cov, con), dim = model.sig[name]
        nfree_max = max(nfree_max, nf)
        for ax in range(nf + cov + con):
            lab = ("F", nf - ax) if ax < nf else (pos, ax)  # free axes: position counted from the right
            parent.setdefault(lab, lab)
            labels[(pos, ax)] = lab
    for si, ti, i, j in model.contr:
        a, b = find(labels[(si, i)]), find(labels[(ti, j)])
        if a != b:
            parent[a] = b
    contracted = set()
    for si, ti, i, j in model.contr:
        contracted.add(find(labels[(si, i)]))
    out = [("F", k) for k in range(nfree_max, 0, -1)]
    ncov = ncon = 0
    for pos, name in enumerate(model.nodes):
        for ax in model.unused[pos][0]:
            out.append(find(labels[(pos, ax)]))
            ncov += 1
    for pos, name in enumerate(model.nodes):
        for ax in model.unused[pos][1]:
            out.append(find(labels[(pos, ax)]))
            ncon += 1
    all_labels = list(dict.fromkeys([find(l) for l in labels.values()]))
    axis_of = {l: k for k, l in enumerate(all_labels)}
    size = {}
    total = None
    for pos, name in enumerate(model.nodes):
        arr = np.asarray(arrays[name])
        labs = [find(labels[(pos, ax)]) for ax in range(arr.ndim)]
        # a label occurring twice on one node (a loop): take the diagonal
        while len(set(labs)) < len(labs):
            for x in labs:
                idx = [k for k, l in enumerate(labs) if l == x]
                if len(idx) > 1:
                    arr = np.diagonal(arr, axis1=idx[0], axis2=idx[1])  # diagonal goes to the last axis
                    labs = [l for k, l in enumerate(labs) if k not in idx[:2]] + [x]
                    break
        full = [1] * len(all_labels)
        order = sorted(range(len(labs)), key=lambda k: axis_of[labs[k]])
        arr = np.transpose(arr, order)
        for k in order:
            full[axis_of[labs[k]]] = arr.shape[order.index(k)]
        for l, d in zip([labs[k] for k in order], arr.shape):
            size[l] = d
        arr = arr.reshape(full)
        total = arr if total is None else total * arr
    total = np.broadcast_to(total, [size[l] for l in all_labels])
    sum_axes = tuple(axis_of[l] for l in all_labels if l in contracted)
    keep = [l for l in all_labels if l not in contracted]
    res = total.sum(axis=sum_axes) if sum_axes else total
    res = np.transpose(res, [keep.index(l) for l in out])
    return res, nfree_max, ncov, ncon


# ---------------------------------------------------------------------------------------------------
# BFS over programs


def actions(names):
    acts = [("node", x) for x in names]
    acts += [("edge", x, y) for x in names for y in names]
    return acts


def enum_programs(tier, seed):
    names = [u[0] for u in universe(tier)]
    for a in actions(names):
        yield a


def _apply_real(objs, prog, constructor=False):
    """Replays a program on a fresh real TensorDiagram. Returns (diagram, exception of the LAST action or None)."""
    from geometer.base import TensorDiagram

    if constructor:
        return TensorDiagram(*[(objs[a[1]], objs[a[2]]) for a in prog]), None
    d = TensorDiagram()
    for k, a in enumerate(prog):
        try:
            if a[0] == "node":
                d.add_node(objs[a[1]])
            elif a[0] == "rejected":
                try:
                    d.add_edge(objs[a[1]], objs[a[2]])
                except Exception:  # noqa: BLE001  (the caller established that this edge is rejected)
                    pass
            else:
                d.add_edge(objs[a[1]], objs[a[2]])
        except Exception as e:  # noqa: BLE001
            return d, (k, e)
        if k < len(prog) - 1:
            try:
                d.calculate()  # evaluate the intermediate diagram on the same object: results must not be remembered
            except Exception:  # noqa: BLE001
                pass
    return d, None


@family("C05", "diagram_programs", enum_programs)
def case_programs(ctx, cfg):
    from geometer.exceptions import TensorComputationError

    tier = ctx.tier
    depth = 3 if tier == "quick" else 4
    U = universe(tier)
    names = [u[0] for u in U]
    sig = {name: (s, dim) for name, s, dim, _ in U}
    objs = make_objects(tier)
    arrays = {k: v.array for k, v in objs.items()}
    acts = actions(names)
    first = tuple(cfg)
    seen = set()
    queue = deque()

    def step(model, prog, a):
        """One transition: applies `a` in the model and on the real code; compares; returns successor model or None."""
        m2 = model.copy()
        if a[0] == "node":
            if a[1] in m2.nodes:
                return None  # outside the alphabet (the statement does not define one object as two nodes)
            pred = m2.add_node(a[1])
        else:
            pred = m2.add_edge(a[1], a[2])
        prog2 = prog + (a,)
        d, err = ctx.call(_apply_real, objs, prog2)[0]
        ctx.trace()
        inputs = {"program": prog2}
        if pred in ("error", "error-no-index"):
            ctx.tally("edge:error-predicted")
            if err is None or not isinstance(err[1], TensorComputationError):
                ctx.fail("diagram:missing-TensorComputationError", "add_edge", inputs, "TensorComputationError", "no exception" if err is None else err[1])
                return None
            if pred == "error" or err[0] != len(prog2) - 1:
                return None  # a dimension mismatch is terminal (what it leaves behind is not specified)
            # "no index left": the rejected edge consumed nothing; the diagram (with any node the edge introduced) must go
            # on working - compared below like any other state and explored further
            prog2 = prog + (("rejected",) + tuple(a[1:]),)
            d, err = ctx.call(_apply_real, objs, prog2)[0]
            inputs = {"program": prog2}
            ctx.tally("edge:rejected-then-continued")
        if err is not None:
            kind = "self-loop-on-new-node" if a[0] == "edge" and a[1] == a[2] and a[1] not in model.nodes else "edge"
            ctx.fail(f"diagram:unexpected-error:{kind}:{type(err[1]).__name__}", "add_edge", inputs, "no exception", err[1])
            return None
        key = m2.key()
        if key in seen:
            ctx.tally("merged-equal-model-state")
            return None
        seen.add(key)
        ctx.state(key)
        fresh_loop = any(x[0] in ("edge", "rejected") and x[1] == x[2] and x[1] not in _nodes_before(prog2, k) for k, x in enumerate(prog2))
        tag = ":self-loop-on-new-node" if fresh_loop else ""
        # private bookkeeping, when present, must equal the model's
        if hasattr(d, "_unused_indices") and hasattr(d, "_contraction_list") and hasattr(d, "_nodes"):
            got_nodes = [next((n for n in names if objs[n] is x), "?") for x in d._nodes]
            got_unused = [[list(a_), list(b_)] for a_, b_ in d._unused_indices]
            if got_nodes != m2.nodes or got_unused != m2.unused or [tuple(c) for c in d._contraction_list] != m2.contr:
                ctx.fail("diagram:bookkeeping" + tag, a[0], inputs, {"nodes": m2.nodes, "unused": m2.unused, "contractions": m2.contr}, {"nodes": got_nodes, "unused": got_unused, "contractions": d._contraction_list})
                return None  # do not explore beyond a violated state
        # value of the diagram
        want, nf, ncov, ncon = reference_contract(m2, arrays)
        res, e = ctx.call(d.calculate)
        ctx.trace()
        ctx.tally(f"nodes{len(m2.nodes)}:edges{len(m2.contr)}")
        if e is not None:
            ctx.fail(f"diagram:calculate-raises:{type(e).__name__}" + tag, "calculate", inputs, want, e)
            return None
        ok = res.array.shape == want.shape and np.array_equal(res.array, want)
        if not ok:
            ctx.fail("diagram:value" + tag, "calculate", inputs, want, res.array)
            return None
        if res.tensor_shape != (ncov, ncon) or res.free_indices != nf or res._covariant_indices != set(range(nf, nf + ncov)) or res._contravariant_indices != set(range(nf + ncov, nf + ncov + ncon)):
            ctx.fail("diagram:index-types" + tag, "calculate", inputs, {"free": nf, "cov": ncov, "con": ncon}, {"tensor_shape": res.tensor_shape, "cov": sorted(res._covariant_indices), "con": sorted(res._contravariant_indices)})
            return None
        # the constructor form TensorDiagram(*edges) denotes the same diagram
        if all(x[0] == "edge" for x in prog2):  # (programs with rejected edges cannot be written as one constructor call)
            pair, e2 = ctx.call(_apply_real, objs, prog2, True)
            r2, e3 = ctx.call(pair[0].calculate) if e2 is None else (None, e2)
            ctx.trace()
            if e3 is not None or r2.array.shape != want.shape or not np.array_equal(r2.array, want) or r2.tensor_shape != (ncov, ncon):
                ctx.fail("diagram:constructor-form" + tag, "TensorDiagram(*edges)", inputs, want, e3 if e3 is not None else r2.array)
        m2.prog = prog2
        return m2

    root = Model(sig)
    m1 = step(root, (), first)
    if m1 is not None:
        queue.append((m1, m1.prog))
    while queue:
        model, prog = queue.popleft()
        # programs that contain a rejected edge (a deviation from the default course) are explored to depth 3 in both
        # tiers; depth 4 of the thorough tier is for programs of accepted actions (with rejected edges the depth-4 space of
        # the 12-object universe has more than 1e8 states and does not finish within the time cap)
        if len(prog) >= (3 if any(x[0] == "rejected" for x in prog) else depth) or ctx.expired():
            continue
        for a in acts:
            m2 = step(model, prog, a)
            if m2 is not None:
                queue.append((m2, m2.prog))
    # operands must be untouched by diagram construction and evaluation
    fresh = make_objects(tier)
    for k in objs:
        if not np.array_equal(objs[k].array, fresh[k].array):
            ctx.fail("diagram:operand-modified", "calculate", {"first_action": first, "operand": k}, fresh[k].array, objs[k].array)


def _nodes_before(prog, k):
    s = []
    for a in prog[:k]:
        for x in a[1:]:
            if x not in s:
                s.append(x)
    return s


def enum_recalc(tier, seed):
    names = [u[0] for u in universe(tier)]
    progs = []
    for x, y in itertools.permutations(names, 2):
        progs.append((("edge", x, y),))
    for x, y, z in itertools.permutations(names[:7], 3):
        progs.append((("edge", x, y), ("edge", y, z)))
        progs.append((("edge", x, y), ("node", z)))
    for p in progs:
        yield p


@family("C05", "recalculate_after_assignment", enum_recalc)
def case_recalc(ctx, cfg):
    from geometer.base import TensorDiagram

    prog = tuple(tuple(a) for a in cfg)
    U = universe(ctx.tier)
    sig = {name: (s, dim) for name, s, dim, _ in U}
    objs = make_objects(ctx.tier)
    # give every object its own array (the copy() twin shares one on purpose elsewhere; here entries are assigned)
    for k in objs:
        objs[k].array = objs[k].array.copy()
    m = Model(sig)
    for a in prog:
        r = m.add_node(a[1]) if a[0] == "node" else m.add_edge(a[1], a[2])
        if r == "error":
            ctx.skipped += 1
            return
    d = TensorDiagram()
    try:
        for a in prog:
            if a[0] == "node":
                d.add_node(objs[a[1]])
            else:
                d.add_edge(objs[a[1]], objs[a[2]])
    except Exception:  # noqa: BLE001
        ctx.skipped += 1  # the fresh self-loop finding and erroring programs are the BFS family's business
        return
    ctx.state(prog)
    first, e0 = ctx.call(d.calculate)
    if e0 is not None:
        return
    # assign entries of each node in turn and evaluate again: the diagram denotes the Einstein sum of the CURRENT entries
    for name in dict.fromkeys(x for a in prog for x in a[1:]):
        t = objs[name]
        idx = (0,) * t.rank
        t[idx] = t.array[idx] + 7
        arrays = {k: v.array for k, v in objs.items()}
        want, nf, ncov, ncon = reference_contract(m, arrays)
        for how, dd in (("same-diagram", d), ("copied-diagram", d.copy())):
            res, e = ctx.call(dd.calculate)
            ctx.trace()
            if e is not None or res.array.shape != want.shape or not np.array_equal(res.array, want):
                ctx.fail(f"diagram:stale-result-after-assignment:{how}", "calculate", {"program": prog, "assigned_node": name}, want, e if e is not None else res.array)
                return
    # adding a node / an edge after an evaluation
    for extra in ("a", "b"):
        if extra in m.nodes:
            continue
        m2 = m.copy()
        m2.add_node(extra)
        d.add_node(objs[extra])
        want, nf, ncov, ncon = reference_contract(m2, {k: v.array for k, v in objs.items()})
        res, e = ctx.call(d.calculate)
        ctx.trace()
        if e is not None or res.array.shape != want.shape or not np.array_equal(res.array, want):
            ctx.fail("diagram:stale-result-after-add_node", "calculate", {"program": prog, "added_node": extra}, want, e if e is not None else res.array)
        return


# ---------------------------------------------------------------------------------------------------
# tensor_product / pow as the diagrams they denote


def enum_products(tier, seed):
    sigs = [(1, 0), (0, 1), (1, 1), (2, 0), (0, 2), (2, 1), (1, 2), (3, 0), (0, 3)]
    for s1 in sigs:
        for s2 in sigs:
            yield ("tensor_product", s1, s2)
    for s in [(1, 1), (2, 1), (1, 2), (2, 2)]:
        for k in (1, 2, 3):
            yield ("pow", s, k)


def _mk(cov, con, dim, off):
    from geometer.base import Tensor

    size = dim ** (cov + con)
    arr = ((np.arange(size) * 5 + off) % 7 - 3).reshape((dim,) * (cov + con)).astype(np.int64)
    # place contravariant axes first on purpose for half of the cases, to exercise the re-ordering
    return Tensor(arr, covariant=list(range(cov)), tensor_rank=cov + con) if cov + con else None


@family("C05", "tensor_product_pow", enum_products)
def case_products(ctx, cfg):
    from geometer.base import Tensor

    if cfg[0] == "tensor_product":
        _, s1, s2 = cfg
        for mixed in (False, True):
            A = _mk(s1[0], s1[1], 2, 1)
            B = _mk(s2[0], s2[1], 2, 4)
            if mixed and s1[0] and s1[1]:
                # a tensor whose covariant axes are NOT leading: (con, cov) layout
                arr = np.moveaxis(A.array, 0, -1).copy()
                A = Tensor(arr, covariant=[A.rank - 1] + list(range(s1[0] - 1)), tensor_rank=A.rank) if False else Tensor(arr, covariant=[arr.ndim - 1] + list(range(0, s1[0] - 1)))
            elif mixed:
                continue
            ctx.state((cfg, mixed))
            res, e = ctx.call(A.tensor_product, B)
            ctx.trace()
            if e is not None:
                ctx.fail(f"tensor_product:{type(e).__name__}", "tensor_product", {"sig1": A.tensor_shape, "sig2": B.tensor_shape, "mixed": mixed}, "tensor", e)
                continue
            covA, conA = sorted(A._covariant_indices), sorted(A._contravariant_indices)
            covB, conB = sorted(B._covariant_indices), sorted(B._contravariant_indices)
            full = np.multiply.outer(A.array, B.array)
            order = covA + [A.rank + i for i in covB] + conA + [A.rank + i for i in conB]
            want = np.transpose(full, order)
            ncov = len(covA) + len(covB)
            if res.array.shape != want.shape or not np.array_equal(res.array, want) or res.tensor_shape != (ncov, len(conA) + len(conB)) or res._covariant_indices != set(range(ncov)):
                ctx.fail("tensor_product:value-or-types", "tensor_product", {"sig1": A.tensor_shape, "sig2": B.tensor_shape, "mixed": mixed}, want, res.array)
    else:
        _, s, k = cfg
        A = _mk(s[0], s[1], 2, 2)
        ctx.state(cfg)
        res, e = ctx.call(lambda: A**k)
        ctx.trace()
        # A**k: chain cur -> prev: edge (cur, prev) contracts the first unused covariant index of the new copy with the
        # first unused contravariant index of the previous one
        names = [f"x{i}" for i in range(k)]
        sig = {n: ((0, s[0], s[1]), 2) for n in names}
        m = Model(sig)
        err = None
        for i in range(k - 1):
            err = err or m.add_edge(names[i + 1], names[i])
        if k == 1:
            m.add_node(names[0])
        want, nf, ncov, ncon = reference_contract(m, {n: A.array for n in names})
        if e is not None or res.array.shape != want.shape or not np.array_equal(res.array, want) or res.tensor_shape != (ncov, ncon):
            ctx.fail("pow:value-or-types", "__pow__", {"sig": s, "k": k}, want, e if e is not None else res.array)


# ---------------------------------------------------------------------------------------------------
# epsilon / delta entries


def enum_eps(tier, seed):
    for n in range(1, 7 if tier == "quick" else 9):
        yield ("eps", n)
    maxent = 70000 if tier == "quick" else 2_000_000
    for n in range(1, 5 if tier == "quick" else 7):
        for p in range(1, n + 1):
            if n ** (2 * p) <= maxent:
                yield ("delta", n, p)
    # sequences of instantiations in one process (class-level caches): ascending, descending, argument-swapped pairs, p > n
    yield ("delta_sequence", "ascending")
    yield ("delta_sequence", "descending")
    yield ("delta_sequence", "swapped-pairs")


def _perm_sign_cycles(p):
    seen = [False] * len(p)
    s = 1
    for i in range(len(p)):
        if not seen[i]:
            j, L = i, 0
            while not seen[j]:
                seen[j] = True
                j = p[j]
                L += 1
            if L % 2 == 0:
                s = -s
    return s


@family("C05", "epsilon_delta_entries", enum_eps)
def case_eps(ctx, cfg):
    from geometer.base import KroneckerDelta, LeviCivitaTensor

    if cfg[0] == "eps":
        n = cfg[1]
        want = np.zeros((n,) * n, dtype=np.int64)
        for p in itertools.permutations(range(n)):
            want[p] = _perm_sign_cycles(p)  # parity from the cycle type (independent of the library's formula)
        for cov in (True, False, True):
            e, ex = ctx.call(LeviCivitaTensor, n, cov)
            ctx.trace(want.size)
            ctx.state(("eps", n, cov))
            ctx.tally(f"eps{n}:entries", want.size)
            if ex is not None:
                ctx.fail(f"epsilon:{type(ex).__name__}", "LeviCivitaTensor", {"n": n, "covariant": cov}, "tensor", ex)
                return
            ts = (n, 0) if cov else (0, n)
            if e.array.shape != want.shape or not np.array_equal(e.array, want) or e.tensor_shape != ts:
                bad = tuple(np.argwhere(e.array != want)[0]) if e.array.shape == want.shape and not np.array_equal(e.array, want) else None
                ctx.fail("epsilon:entries", "LeviCivitaTensor", {"n": n, "covariant": cov, "index": bad}, int(want[bad]) if bad else ts, int(e.array[bad]) if bad else e.tensor_shape)
                return
        # the class cache still holds the same bytes
        cached = LeviCivitaTensor._cache.get(n)
        if cached is not None and not np.array_equal(cached, want):
            ctx.fail("epsilon:cache-changed", "LeviCivitaTensor._cache", {"n": n}, "definition", "changed")
    elif cfg[0] == "delta_sequence":
        from checks.c20 import vdet

        pairs = [(n, p) for n in (1, 2, 3, 4) for p in (1, 2, 3, 4) if n ** (2 * p) <= 70000]
        if cfg[1] == "descending":
            pairs = pairs[::-1]
        elif cfg[1] == "swapped-pairs":
            pairs = [x for n, p in pairs if n < p for x in ((n, p), (p, n))] + [x for n, p in pairs if n > p for x in ((n, p), (p, n))]

        def want_delta(n, p):
            idx = np.indices((n,) * (2 * p)).reshape(2 * p, -1).T
            M = (idx[:, :p][:, :, None] == idx[:, p:][:, None, :]).astype(np.int64)
            return vdet(M).reshape((n,) * (2 * p))

        for rep in range(2):
            for n, p in pairs:
                d, ex = ctx.call(KroneckerDelta, n, p)
                ctx.trace()
                ctx.state(("delta_sequence", cfg[1], n, p, rep))
                ctx.tally("p>n" if p > n else "p<=n")
                w = want_delta(n, p)
                if ex is not None or d.array.shape != w.shape or not np.array_equal(d.array, w) or d.tensor_shape != (p, p):
                    ctx.fail(f"delta:sequence:{cfg[1]}", "KroneckerDelta", {"n": n, "p": p, "order": cfg[1], "earlier": [list(x) for x in pairs[: pairs.index((n, p))]][-4:]}, list(w.shape), ex if ex is not None else list(d.array.shape))
                    return
            for n in (2, 3, 4):
                e_, ex = ctx.call(LeviCivitaTensor, n)
                if ex is not None or not np.array_equal(e_.array, LeviCivitaTensor(n, False).array):
                    ctx.fail("epsilon:sequence", "LeviCivitaTensor", {"n": n}, "same array for both variances", ex)
                    return
    else:
        _, n, p = cfg
        idx = np.indices((n,) * (2 * p)).reshape(2 * p, -1).T  # every index tuple (mu_1..mu_p, nu_1..nu_p)
        mu, nu = idx[:, :p], idx[:, p:]
        M = (mu[:, :, None] == nu[:, None, :]).astype(np.int64)  # p x p matrices delta(mu_a, nu_b)
        from checks.c20 import vdet

        want = vdet(M).reshape((n,) * (2 * p))
        for rep in range(2):
            d, ex = ctx.call(KroneckerDelta, n, p)
            ctx.trace(want.size)
            ctx.state(("delta", n, p, rep))
            ctx.tally(f"delta{n},{p}:entries", want.size)
            if ex is not None:
                ctx.fail(f"delta:{type(ex).__name__}", "KroneckerDelta", {"n": n, "p": p}, "tensor", ex)
                return
            if d.array.shape != want.shape or not np.array_equal(d.array, want) or d.tensor_shape != (p, p) or d._covariant_indices != set(range(p)):
                bad = tuple(int(x) for x in np.argwhere(d.array != want)[0]) if d.array.shape == want.shape and not np.array_equal(d.array, want) else None
                ctx.fail("delta:entries", "KroneckerDelta", {"n": n, "p": p, "index": bad}, int(want[bad]) if bad else [p, p], int(d.array[bad]) if bad else d.tensor_shape)
                return
