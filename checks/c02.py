"""C02: degenerate join/meet inputs raise the documented error (families shared with C02 in joinmeet.py)."""
from checks import joinmeet  # noqa: F401
