"""Plain pytest replay of every stored counterexample artefact - no explorer involved: each artefact names a family
and one configuration; the family's case function runs the real library on it and compares with the exact oracle.

    cd /verif && /venv/bin/python -m pytest -q replays/test_replay.py

On the repaired tree every artefact must replay WITHOUT a violation (they were produced by defects that are now
fixed, by seeded changes that are not applied, or by harness errors corrected since)."""
import glob
import os
import sys

import pytest

HERE = os.path.dirname(os.path.abspath(__file__))
sys.path.insert(0, os.path.dirname(HERE))
sys.path.insert(0, os.environ.get("GEOMETER_REPO", "/repo"))
os.environ.setdefault("PYTHONHASHSEED", "0")

FILES = sorted(glob.glob(os.path.join(HERE, "*.json")))


@pytest.mark.parametrize("path", FILES, ids=[os.path.basename(f) for f in FILES])
def test_replay(path):
    from mc import core

    pid, fails = core.replay_file(path)
    unexpected = [f for f in fails]
    assert not unexpected, f"property {pid} violated again on the recorded configuration: {unexpected[0]['sig']} {unexpected[0]['inputs']}"
